"""C11 native oracle: elementary forecasters (naive, polynomial trend, statsmodels adapters) on the real code,
compared with textbook forecasts computed independently (plain numpy / direct statsmodels calls)."""
import random
import warnings

import numpy as np
import pandas as pd

from .common import Recorder, mint

TOL = dict(rtol=1e-9, atol=1e-9)


def _fmt(a):
    return np.array2string(np.asarray(a, dtype=float), precision=5, separator=",", max_line_width=400)


def _same(got, exp, rtol=1e-9, atol=1e-9):
    got, exp = np.asarray(got, dtype=float), np.asarray(exp, dtype=float)
    return got.shape == exp.shape and bool(np.allclose(got, exp, rtol=rtol, atol=atol, equal_nan=True))


def _index(kind, l0, n):
    if kind == "range":
        return pd.RangeIndex(l0, l0 + n)
    if kind == "int":
        return pd.Index(np.arange(l0, l0 + n, dtype="int64"))
    return pd.period_range("2001-03", periods=n, freq="M")


def _series(v, kind="range", l0=0):
    return pd.Series(np.array(v, dtype=float), index=_index(kind, l0, len(v)))


def _values(rng, n, nan_at=()):
    v = np.array([round(10.0 + 3.0 * i + rng.uniform(-6, 6), 3) for i in range(n)])
    for p in nan_at:
        v[p] = np.nan
    return v


# ---------------------------------------------------------------------------------------------------------
# naive forecaster
# ---------------------------------------------------------------------------------------------------------
SKIP = "skip"


def naive_ref(v, c, t, strategy, sp, w):
    """Textbook forecast for position t made at cutoff position c (t > c) from the observations v[0..c], using the
    window of the last w observations ending at c.  Returns (value, lo, truncated) or SKIP when the statement is
    silent (no usable observation / unsupported missing value)."""
    lo = c - w + 1
    trunc = lo < 0
    lo = max(lo, 0)
    win = v[lo:c + 1]
    if strategy == "last":
        if sp == 1:
            return (SKIP if np.isnan(v[c]) else v[c]), lo, False
        p = t - sp * (-(-(t - c) // sp))          # last position <= c of the same season as t
        if p < 0:
            return None, lo, True                   # no observation of that season yet
        return (SKIP if np.isnan(v[p]) else v[p]), lo, False
    if strategy == "mean":
        if sp == 1:
            vals = win
        else:
            vals = np.array([v[p] for p in range(lo, c + 1) if (t - p) % sp == 0])
        vals = vals[~np.isnan(vals)] if len(vals) else vals
        return (float(np.sum(vals) / len(vals)) if len(vals) else np.nan), lo, trunc
    # drift: line through the first and last point of the window
    if c == lo or np.isnan(v[c]) or np.isnan(v[lo]):
        return SKIP, lo, trunc
    return v[c] + (t - c) * (v[c] - v[lo]) / (c - lo), lo, trunc


def naive_expected(v, ncut, rel_fh, strategy, sp, w):
    """expected forecasts for cutoff position ncut-1 and relative steps rel_fh; in-sample steps are one-step-ahead
    forecasts made from the preceding observation.  Entries: float | SKIP | ("kf", tag, wrongvalue) ."""
    out = []
    for h in rel_fh:
        t = ncut - 1 + h
        c = ncut - 1 if h > 0 else t - 1
        if c < 0:
            out.append(np.nan)        # nothing observed before the first point
            continue
        ww = sp if (strategy == "last" and sp > 1) else (1 if strategy == "last" else w)
        val, lo, trunc = naive_ref(v, c, t, strategy, sp, ww)
        if val is None:
            out.append(("nan-or-kf", "KF:seasonal-last-in-sample-first-season-uses-other-season", v[0]))
        elif strategy == "drift" and trunc and val is not SKIP:
            out.append(("val-or-kf", "KF:drift-in-sample-short-window-slope", val, v[c] + (v[c] - v[lo]) / (ww - 1)))
        else:
            out.append(val)
    return out


def compare_naive(R, key, got, exp, desc):
    """element-wise comparison honouring SKIP and the narrow known-defect entries"""
    got = np.asarray(got, dtype=float)
    if len(got) != len(exp):
        R.check(key, False, f"{desc}: {len(got)} forecasts for {len(exp)} steps: {_fmt(got)}")
        return
    for j, e in enumerate(exp):
        g = got[j]
        if isinstance(e, str):
            continue
        if isinstance(e, tuple):
            if e[0] == "nan-or-kf":
                if np.isnan(g):
                    R.check(key, True, desc)
                elif _same(g, e[2]):
                    R.check(e[1], False, f"{desc}: step #{j} has no earlier observation of its season, yet forecast {g} (= first "
                                         f"observation, another season) is returned")
                else:
                    R.check(key, False, f"{desc}: step #{j} got {g}, no same-season observation exists (expected nan)")
            else:
                if _same(g, e[2]) or np.isnan(g):
                    R.check(key, True, desc)
                elif _same(g, e[3]):
                    R.check(e[1], False, f"{desc}: step #{j} got {g}; line through the end points of the (shorter) available window "
                                         f"gives {e[2]}; the slope was divided by window_length-1 although the window holds fewer points")
                else:
                    R.check(key, False, f"{desc}: step #{j} got {g} expected {e[2]}")
            continue
        R.check(key, _same(g, e), f"{desc}: step #{j} got {g} expected {e}; all got={_fmt(got)}")


def _mk_fh(rel_fh, absolute, idx_all, ncut):
    """relative list, or absolute ForecastingHorizon built from the (extended) index"""
    from sktime.forecasting.base import ForecastingHorizon
    if not absolute:
        return list(rel_fh)
    return ForecastingHorizon(idx_all[[ncut - 1 + h for h in rel_fh]], is_relative=False)


def _ext_index(kind, l0, n, extra):
    return _index(kind, l0, n + extra)


def naive_case(R, v, strategy, sp, wl, rel_fh, kind="range", l0=0, mode="fit", k=None, absolute=False, tag=""):
    """one configuration of the naive forecaster; v = all observations, k = length of the initial training part for
    the update modes"""
    from sktime.forecasting.naive import NaiveForecaster
    n = len(v)
    rel_fh = tuple(sorted(set(rel_fh)))
    clause = {"last": "naive-last", "mean": "naive-mean", "drift": "naive-drift"}[strategy] + ("-seasonal" if sp > 1 and strategy != "drift" else "")
    in_sample = any(h <= 0 for h in rel_fh)
    desc = (f"{tag}NaiveForecaster(strategy={strategy!r}, sp={sp}, window_length={wl}) y={_fmt(v)} index={kind}@{l0} "
            f"mode={mode}{'' if k is None else f' k={k}'} fh={'abs' if absolute else 'rel'}{list(rel_fh)}")
    idx_all = _ext_index(kind, l0, n, max(max(rel_fh), 0) + 1)
    y = pd.Series(v, index=idx_all[:n])
    fh = _mk_fh(rel_fh, absolute, idx_all, n)
    n_fit = n if k is None else k
    w = (n if (mode in ("fit", "fit-fh", "update-refit", "predict-twice")) else n_fit) if wl is None else wl
    try:
        with warnings.catch_warnings():
            warnings.simplefilter("ignore")
            f = NaiveForecaster(strategy=strategy, sp=sp, window_length=wl)
            if mode == "fit":
                got = f.fit(y).predict(fh)
            elif mode == "fit-fh":
                got = f.fit(y, fh=fh).predict()
            elif mode == "predict-twice":
                f.fit(y)
                f.predict([1, 2] if not in_sample else [3])
                got = f.predict(fh)
            elif mode == "update":
                got = f.fit(y.iloc[:k]).update(y.iloc[k:], update_params=False).predict(fh)
            elif mode == "update-refit":
                got = f.fit(y.iloc[:k], fh=[1]).update(y.iloc[k:], update_params=True).predict(fh)
            elif mode == "update-twice":
                m = (k + n) // 2
                got = f.fit(y.iloc[:k]).update(y.iloc[k:m], update_params=False).update(y.iloc[m:], update_params=False).predict(fh)
            elif mode == "update-predict-single":
                got = f.fit(y.iloc[:k]).update_predict_single(y.iloc[k:], fh=fh, update_params=False)
            else:
                raise AssertionError(mode)
    except Exception as e:
        msg = f"{type(e).__name__}: {e}"
        exp = naive_expected(v, n, rel_fh, strategy, sp, w)
        if strategy == "drift" and any(isinstance(x, str) for x in exp):
            return      # missing end point: documented as unsupported
        short = [x for h, x in zip(rel_fh, exp) if h <= 0 and (n - 1 + h - 1) - w + 1 < 0 <= (n - 1 + h - 1)]
        if strategy == "mean" and sp > 1 and isinstance(e, ValueError) and "reshape" in str(e) and short:
            # in-sample step whose window reaches back before the start of the series
            if any(isinstance(x, float) and not np.isnan(x) for x in short):
                R.check("KF:seasonal-mean-in-sample-short-window-raises", False,
                        f"{desc}: in-sample step whose window starts before the series raised {msg}; expected forecasts "
                        f"{[x if isinstance(x, str) else round(float(x), 5) for x in exp]}")
            return
        R.check(clause + "-no-error", False, f"{desc}: {msg}")
        return
    exp = naive_expected(v, n, rel_fh, strategy, sp, w)
    want_index = list(idx_all[[n - 1 + h for h in rel_fh]])
    R.check("naive-forecast-index", list(got.index) == want_index, f"{desc}: index {list(got.index)} expected {want_index}")
    compare_naive(R, clause + ("-in-sample" if in_sample else ""), got.to_numpy(), exp, desc)


def fh_sets(n, sp, tier):
    """relative horizons: consecutive, gapped, beyond one and two seasons, in-sample, mixed"""
    out = [(1,), (1, 2, 3), (2,), (2, 4), (sp + 1,), tuple(range(1, 2 * sp + 2)), (2, sp + 1, 3 * sp), (3 * sp + 1,)]
    ins = [(0,), (-1, 0)]
    if n >= 3:
        ins += [(-2, 0, 1, 3), tuple(range(-n + 1, 1)), (-n + 1,), (-n + 2, 2)]
    if tier != "quick":
        out += [(3,), (1, sp), (sp, 2 * sp), (1, 2 * sp + 1)]
        if n >= 4:
            ins += [(-3, -1), (-3, 1, sp + 2)]
    seen, res = set(), []
    for f in out + ins:
        f = tuple(sorted(set(f)))
        if f not in seen and n - 1 + f[0] >= 0:
            seen.add(f)
            res.append(f)
    return res


def naive_configs(n, tier):
    spmax = 4 if tier == "quick" else 5
    for sp in range(1, spmax + 1):
        if sp == 1:
            yield "last", 1, None
        elif sp <= n:
            yield "last", sp, None
        for wl in [None] + list(range(1, n + 1)):
            if sp == 1 or (wl is None and sp <= n) or (wl is not None and wl >= sp):
                yield "mean", sp, wl
        if sp == 1 and n >= 2:
            for wl in [None] + list(range(2, n + 1)):
                yield "drift", 1, wl


def run_naive(R, tier, rng):
    nmax = 8 if tier == "quick" else 12
    for n in range(1, nmax + 1):
        v = _values(rng, n)
        for strategy, sp, wl in naive_configs(n, tier):
            kind, l0 = (("range", 0), ("range", 3), ("int", 5))[(n + sp + (wl or 0)) % 3]
            for fh in fh_sets(n, sp, tier):
                naive_case(R, v, strategy, sp, wl, fh, kind, l0)
            # absolute horizons and horizon given in fit
            naive_case(R, v, strategy, sp, wl, (1, 3, sp + 2), kind, l0, absolute=True)
            naive_case(R, v, strategy, sp, wl, (2, sp + 1), kind, l0, mode="fit-fh")
            naive_case(R, v, strategy, sp, wl, (1, 2, sp + 1), kind, l0, mode="predict-twice")
            if n >= 2:
                naive_case(R, v, strategy, sp, wl, (-1, 0, 2), kind, l0, absolute=True)
                naive_case(R, v, strategy, sp, wl, (0, 1), kind, l0, mode="predict-twice")
            # cutoff moved by update, with and without refit
            for k in range(1, n):
                fit_ok = (strategy == "last" and sp <= k) or (strategy != "last" and (wl or 1) <= k and not (strategy == "drift" and k < 2 and wl is None))
                if strategy == "mean" and sp > 1 and wl is None and sp > k:
                    fit_ok = False
                if not fit_ok:
                    continue
                if tier == "quick" and (k + n + sp) % 2:
                    continue
                for fh in ((1, 2, sp + 1), (2, 2 * sp + 1)):
                    naive_case(R, v, strategy, sp, wl, fh, kind, l0, mode="update-refit", k=k)
                    if wl is not None or strategy == "last":
                        naive_case(R, v, strategy, sp, wl, fh, kind, l0, mode="update", k=k)
                        naive_case(R, v, strategy, sp, wl, fh, kind, l0, mode="update-predict-single", k=k)
                        if n - k >= 2:
                            naive_case(R, v, strategy, sp, wl, fh, kind, l0, mode="update-twice", k=k)
    # monthly PeriodIndex
    for n in (5, 8):
        v = _values(rng, n)
        for strategy, sp, wl in naive_configs(n, "quick"):
            if (wl or 0) % 2 == 0:
                for fh in ((1, 2, sp + 1), (-1, 0, 1), (2, 2 * sp + 1)):
                    naive_case(R, v, strategy, sp, wl, fh, "period", 0)
    # missing values
    nn = (6, 8) if tier == "quick" else (6, 8, 9, 11)
    for n in nn:
        for nan_at in [(0,), (n - 1,), (n - 2,), (1, 2), (n - 3, n - 1), tuple(range(n - 2, n)), tuple(range(n))]:
            v = _values(rng, n, nan_at)
            for strategy, sp, wl in naive_configs(n, "quick"):
                if wl is not None and wl not in (2, 3, 5, n):
                    continue
                for fh in ((1, 2, 3), (2, sp + 1, 2 * sp + 2)):
                    naive_case(R, v, strategy, sp, wl, fh, "range", 2, tag="[missing values] ")
                if strategy != "drift":
                    naive_case(R, v, strategy, sp, wl, (-2, 0, 1), "range", 2, tag="[missing values] ")
    # set_params followed by a refit must behave like a freshly constructed forecaster
    from sktime.forecasting.naive import NaiveForecaster
    v = _values(rng, 9)
    y = _series(v, "range", 4)
    confs = [("mean", 3, 5), ("last", 1, None), ("drift", 1, 4), ("last", 4, None), ("mean", 1, 3), ("mean", 2, None), ("drift", 1, None), ("last", 3, None)]
    for a in confs:
        for b in confs:
            if a == b:
                continue
            with warnings.catch_warnings():
                warnings.simplefilter("ignore")
                desc = f"NaiveForecaster{a} fitted, set_params{b}, refitted on y={_fmt(v)}; fh=[1..9]"
                try:
                    f = NaiveForecaster(strategy=a[0], sp=a[1], window_length=a[2]).fit(y)
                    f.predict([1, 2])
                    f.set_params(strategy=b[0], sp=b[1], window_length=b[2])
                    got = f.fit(y).predict(list(range(1, 10))).to_numpy()
                except Exception as e:
                    R.check("naive-reconfigured-refit", False, f"{desc}: {type(e).__name__}: {e}")
                    continue
            exp = naive_expected(v, 9, list(range(1, 10)), b[0], b[1], b[2] or 9)
            compare_naive(R, "naive-reconfigured-refit", got, exp, desc)


def _moving_get(got, cutoff, labels):
    """forecasts made at `cutoff` for the time points `labels` out of an update_predict result (Series for single-step
    horizons or a single cutoff, otherwise a DataFrame with one column per cutoff)"""
    try:
        col = got[cutoff] if isinstance(got, pd.DataFrame) else got
        return [float(col.loc[t]) for t in labels]
    except Exception:
        return [np.nan] * len(labels)


def run_naive_update_predict(R, tier, rng):
    """moving-cutoff forecasts: every column is the forecast made at that cutoff from everything observed so far"""
    from sktime.forecasting.model_selection import SlidingWindowSplitter
    from sktime.forecasting.naive import NaiveForecaster
    for n, k in ((11, 5), (10, 4)) if tier == "quick" else ((11, 5), (10, 4), (13, 6), (14, 8)):
        v = _values(rng, n)
        y = _series(v, "range", 2)
        for strategy, sp, wl in (("last", 1, None), ("last", 3, None), ("mean", 1, 3), ("mean", 3, 4), ("mean", 2, 3), ("drift", 1, 3)):
            for fh in ((1,), (1, 2), (2, 4)):
                for step in (1, 2):
                    desc = (f"NaiveForecaster({strategy!r}, sp={sp}, window_length={wl}) y={_fmt(v)} index from 2; fit first {k}, "
                            f"update_predict(rest, SlidingWindowSplitter(fh={list(fh)}, window_length={step}, step_length={step}), update_params=False)")
                    try:
                        with warnings.catch_warnings():
                            warnings.simplefilter("ignore")
                            f = NaiveForecaster(strategy=strategy, sp=sp, window_length=wl).fit(y.iloc[:k])
                            cv = SlidingWindowSplitter(fh=list(fh), window_length=step, step_length=step)
                            got = f.update_predict(y.iloc[k:], cv, update_params=False)
                    except Exception as e:
                        R.check("naive-update-predict", False, f"{desc}: {type(e).__name__}: {e}")
                        continue
                    cuts = [c for c in range(k + step - 1, n, step) if c + max(fh) <= n - 1]
                    ok, why = True, ""
                    for c in cuts:
                        exp = naive_expected(v, c + 1, list(fh), strategy, sp, wl or k)
                        g = _moving_get(got, 2 + c, [2 + c + h for h in fh])
                        if not _same(g, [e for e in exp]):
                            ok, why = False, f"cutoff {2 + c}: got {_fmt(g)} expected {_fmt(exp)}"
                            break
                    R.check("naive-update-predict", ok, f"{desc}: {why}")


# ---------------------------------------------------------------------------------------------------------
# polynomial trend
# ---------------------------------------------------------------------------------------------------------
def poly_ref(v, degree, intercept, tpred):
    """least-squares polynomial in t = 0..len(v)-1 (time counted from the start of the training series)"""
    t = np.arange(len(v), dtype=float)
    powers = list(range(0 if intercept else 1, degree + 1))
    A = np.stack([t ** p for p in powers], axis=1)
    coef = np.linalg.lstsq(A, np.asarray(v, dtype=float), rcond=None)[0]
    tp = np.asarray(tpred, dtype=float)
    return np.stack([tp ** p for p in powers], axis=1) @ coef


def trend_case(R, v, degree, intercept, rel_fh, kind="range", l0=0, mode="fit", k=None, absolute=False, regressor=None):
    from sktime.forecasting.trend import PolynomialTrendForecaster
    n = len(v)
    rel_fh = tuple(sorted(set(rel_fh)))
    key = "trend-polynomial" + ("" if intercept else "-no-intercept")
    idx_all = _ext_index(kind, l0, n, max(max(rel_fh), 0) + 1)
    y = pd.Series(v, index=idx_all[:n])
    fh = _mk_fh(rel_fh, absolute, idx_all, n)
    desc = (f"PolynomialTrendForecaster(degree={degree}, with_intercept={intercept}{'' if regressor is None else ', regressor=LinearRegression()'}) "
            f"y={_fmt(v)} index={kind}@{l0} mode={mode}{'' if k is None else f' k={k}'} fh={'abs' if absolute else 'rel'}{list(rel_fh)}")
    try:
        with warnings.catch_warnings():
            warnings.simplefilter("ignore")
            reg = None
            if regressor is not None:
                from sklearn.linear_model import LinearRegression
                reg = LinearRegression()
            f = PolynomialTrendForecaster(regressor=reg, degree=degree, with_intercept=intercept)
            if mode == "fit":
                got = f.fit(y).predict(fh)
            elif mode == "fit-fh":
                got = f.fit(y, fh=fh).predict()
            elif mode == "predict-twice":
                f.fit(y)
                f.predict([2, 5])
                got = f.predict(fh)
            elif mode == "update":
                got = f.fit(y.iloc[:k]).update(y.iloc[k:], update_params=False).predict(fh)
            elif mode == "update-twice":
                m = (k + n) // 2
                got = f.fit(y.iloc[:k]).update(y.iloc[k:m], update_params=False).update(y.iloc[m:], update_params=False).predict(fh)
            elif mode == "update-refit":
                got = f.fit(y.iloc[:k], fh=[1]).update(y.iloc[k:], update_params=True).predict(fh)
            elif mode == "update-predict-single":
                got = f.fit(y.iloc[:k]).update_predict_single(y.iloc[k:], fh=fh, update_params=False)
            elif mode == "refit-shorter":
                f.fit(y).predict([1])
                got = f.fit(y.iloc[:k]).predict(fh)
            else:
                raise AssertionError(mode)
    except Exception as e:
        R.check(key + "-no-error", False, f"{desc}: {type(e).__name__}: {e}")
        return
    if mode in ("update", "update-twice", "update-predict-single"):
        train, ncut = v[:k], n        # coefficients from the first k points, evaluated relative to the moved cutoff
    elif mode == "refit-shorter":
        train, ncut = v[:k], k
    else:
        train, ncut = v, n
    tp = [ncut - 1 + h for h in rel_fh]
    exp = poly_ref(train, degree, True if regressor is not None else intercept, tp)
    if mode == "refit-shorter":
        want_index = list(idx_all[[k - 1 + h for h in rel_fh]])
    else:
        want_index = list(idx_all[[n - 1 + h for h in rel_fh]])
    if not (mode == "refit-shorter" and absolute):
        R.check("trend-forecast-index", list(got.index) == want_index, f"{desc}: index {list(got.index)} expected {want_index}")
    scale = max(1.0, float(np.max(np.abs(exp))))
    suffix = {"fit": "", "fit-fh": "", "predict-twice": "-after-refit-or-repeat", "update-refit": "-after-refit-or-repeat",
              "refit-shorter": "-after-refit-or-repeat"}.get(mode, "-after-cutoff-update")
    R.check(key + (suffix or ("-in-sample" if any(h <= 0 for h in rel_fh) else "")),
            _same(got.to_numpy(), exp, rtol=1e-6, atol=1e-7 * scale), f"{desc}: got {_fmt(got.to_numpy())} expected {_fmt(exp)}")


def run_trend(R, tier, rng):
    nmax = 9 if tier == "quick" else 13
    dmax = 3 if tier == "quick" else 4
    for n in range(3, nmax + 1):
        v = _values(rng, n) + 0.3 * np.arange(n) ** 2
        for degree in range(1, dmax + 1):
            if n < degree + 2:
                continue
            for intercept in (True, False):
                kind, l0 = (("range", 0), ("range", 3), ("int", 5))[(n + degree) % 3]
                fhs = [(1,), (1, 2, 3), (2, 5), (7,), (0,), (-1, 0), (-2, 0, 1, 3), tuple(range(-n + 1, 1)), (-n + 1, 2)]
                for fh in fhs:
                    trend_case(R, v, degree, intercept, fh, kind, l0)
                trend_case(R, v, degree, intercept, (1, 3), kind, l0, absolute=True)
                trend_case(R, v, degree, intercept, (-2, 0, 2), kind, l0, absolute=True)
                trend_case(R, v, degree, intercept, (2, 4), kind, l0, mode="fit-fh")
                trend_case(R, v, degree, intercept, (1, 2), kind, l0, mode="predict-twice")
                for k in range(degree + 2, n):
                    if tier == "quick" and (k + n) % 2:
                        continue
                    for fh, ab in (((1, 2, 3), False), ((2, 4), True), ((-1, 0, 1), False), ((-(n - k) - 1, 1), False)):
                        for mode in ("update", "update-refit", "update-predict-single", "refit-shorter"):
                            if mode == "refit-shorter" and (ab or k - 1 + fh[0] < 0):
                                continue
                            trend_case(R, v, degree, intercept, fh, kind, l0, mode=mode, k=k, absolute=ab)
                        if n - k >= 2:
                            trend_case(R, v, degree, intercept, fh, kind, l0, mode="update-twice", k=k, absolute=ab)
        trend_case(R, v, 1, False, (1, 2, 4), "range", 2, regressor="ols")
        trend_case(R, v, 2 if n >= 4 else 1, False, (-1, 1), "range", 2, regressor="ols")
    # reconfiguration followed by refit
    from sktime.forecasting.trend import PolynomialTrendForecaster
    v = _values(rng, 10) + 0.2 * np.arange(10) ** 2
    y = _series(v, "range", 3)
    for d0, i0 in ((1, True), (3, False), (2, True)):
        for d1, i1 in ((2, False), (1, True), (3, True)):
            desc = f"PolynomialTrendForecaster(degree={d0}, with_intercept={i0}) fitted, set_params(degree={d1}, with_intercept={i1}), refitted on y={_fmt(v)}"
            try:
                f = PolynomialTrendForecaster(degree=d0, with_intercept=i0).fit(y)
                f.predict([1])
                f.set_params(degree=d1, with_intercept=i1)
                got = f.fit(y).predict([-1, 1, 4]).to_numpy()
            except Exception as e:
                R.check("trend-reconfigured-refit", False, f"{desc}: {type(e).__name__}: {e}")
                continue
            exp = poly_ref(v, d1, i1, [8, 10, 13])
            R.check("trend-reconfigured-refit", _same(got, exp, rtol=1e-6, atol=1e-6), f"{desc}: got {_fmt(got)} expected {_fmt(exp)}")


def run_trend_update_predict(R, tier, rng):
    from sktime.forecasting.model_selection import SlidingWindowSplitter
    from sktime.forecasting.trend import PolynomialTrendForecaster
    for n, k in ((10, 5), (12, 7)) if tier == "quick" else ((10, 5), (12, 7), (14, 6)):
        v = _values(rng, n)
        y = _series(v, "range", 2)
        for degree, intercept in ((1, True), (2, True), (2, False)):
            for fh in ((1,), (1, 3)):
                for refit in (False, True):
                    desc = (f"PolynomialTrendForecaster(degree={degree}, with_intercept={intercept}) y={_fmt(v)} index from 2; fit first {k}, "
                            f"update_predict(rest, SlidingWindowSplitter(fh={list(fh)}, window_length=1), update_params={refit})")
                    try:
                        with warnings.catch_warnings():
                            warnings.simplefilter("ignore")
                            f = PolynomialTrendForecaster(degree=degree, with_intercept=intercept).fit(y.iloc[:k])
                            f.predict(list(fh))
                            got = f.update_predict(y.iloc[k:], SlidingWindowSplitter(fh=list(fh), window_length=1), update_params=refit)
                    except Exception as e:
                        R.check("trend-update-predict", False, f"{desc}: {type(e).__name__}: {e}")
                        continue
                    ok, why = True, ""
                    for c in range(k, n - max(fh)):
                        exp = poly_ref(v[:c + 1] if refit else v[:k], degree, intercept, [c + h for h in fh])
                        g = _moving_get(got, 2 + c, [2 + c + h for h in fh])
                        if not _same(g, exp, rtol=1e-6, atol=1e-6):
                            ok, why = False, f"cutoff {2 + c}: got {_fmt(g)} expected {_fmt(exp)}"
                            break
                    R.check("trend-update-predict", ok, f"{desc}: {why}")


# ---------------------------------------------------------------------------------------------------------
# statsmodels adapters
# ---------------------------------------------------------------------------------------------------------
def _pos_series(rng, n, shape, sp):
    """positive series: 'season' = trend + seasonal pattern of period sp + noise, 'flat' = noisy level"""
    if shape == "season":
        pat = [rng.uniform(-6, 6) for _ in range(max(sp, 1))]
        return np.array([round(50.0 + 1.7 * i + pat[i % max(sp, 1)] + rng.uniform(-2, 2), 3) for i in range(n)])
    return np.array([round(40.0 + rng.uniform(-8, 8), 3) for i in range(n)])


def _copy_opts(o):
    return {k: (dict(v) if isinstance(v, dict) else (list(v) if isinstance(v, list) else v)) for k, v in o.items()}


def es_reference(v, opts):
    from statsmodels.tsa.holtwinters import ExponentialSmoothing as SM
    o = _copy_opts(opts)
    if "sp" in o:
        o["seasonal_periods"] = o.pop("sp")
    return SM(pd.Series(np.asarray(v, dtype=float)), **o).fit()


ETS_MODEL_KEYS = ("error", "trend", "damped_trend", "seasonal", "initialization_method", "initial_level", "initial_trend",
                  "initial_seasonal", "bounds")
ETS_FIT_KEYS = ("start_params", "maxiter")


def ets_reference(v, opts):
    from statsmodels.tsa.exponential_smoothing.ets import ETSModel
    o = _copy_opts(opts)
    mk = {k: o[k] for k in ETS_MODEL_KEYS if k in o}
    if "sp" in o:
        mk["seasonal_periods"] = o["sp"]
    fk = {k: o[k] for k in ETS_FIT_KEYS if k in o}
    return ETSModel(pd.Series(np.asarray(v, dtype=float)), **mk).fit(disp=False, **fk)


def _ref_at(res, positions):
    lo, hi = min(positions), max(positions)
    p = np.asarray(res.predict(lo, hi), dtype=float)
    return np.array([p[q - lo] for q in positions])


ADAPTER_FHS = [(1, 2, 3), (2, 5), (1,), (6, 7, 8, 9, 10, 11), (-3, 0, 2), (0,), (-5, -2)]


def adapter_case(R, which, v, opts, kind="range", l0=0, mode="fit", k=None, prev=None, fhs=None, tag=""):
    """ExponentialSmoothing ('es') or AutoETS ('ets') against statsmodels called directly with the same options"""
    from sktime.forecasting.ets import AutoETS
    from sktime.forecasting.exp_smoothing import ExponentialSmoothing
    cls, ref_fn, key = (ExponentialSmoothing, es_reference, "expsmoothing-matches-statsmodels") if which == "es" else \
                       (AutoETS, ets_reference, "ets-matches-statsmodels")
    n = len(v)
    fhs = list(fhs or ADAPTER_FHS) + [tuple(range(-n + 1, 1))]
    idx_all = _ext_index(kind, l0, n, 12)
    y = pd.Series(np.asarray(v, dtype=float), index=idx_all[:n])
    desc0 = f"{tag}{cls.__name__}({', '.join(f'{a}={b!r}' for a, b in opts.items())}) y={_fmt(v)} index={kind}@{l0} mode={mode}{'' if k is None else f' k={k}'}"
    train = v[:k] if mode == "update" else v
    with warnings.catch_warnings():
        warnings.simplefilter("ignore")
        try:
            ref = ref_fn(train, opts)
        except Exception:
            return          # statsmodels itself rejects this combination
        try:
            if mode == "fit":
                f = cls(**_copy_opts(opts)).fit(y.copy())
            elif mode == "update":
                f = cls(**_copy_opts(opts)).fit(y.iloc[:k].copy()).update(y.iloc[k:].copy(), update_params=False)
            elif mode == "update-refit":
                f = cls(**_copy_opts(opts)).fit(y.iloc[:k].copy(), fh=[1]).update(y.iloc[k:].copy(), update_params=True)
            elif mode == "reconfigure":
                f = cls(**_copy_opts(prev)).fit(y.copy())
                f.predict([1, 2])
                full = cls().get_params(deep=False)
                full.update(_copy_opts(opts))
                f.set_params(**full)
                f.fit(y.copy())
            else:
                raise AssertionError(mode)
        except Exception as e:
            R.check(key + "-no-error", False, f"{desc0}: {type(e).__name__}: {e}")
            return
        for fh in fhs:
            fh = tuple(sorted(set(fh)))
            if n - 1 + fh[0] < 0:
                continue
            for absolute in ((False, True) if fh in ((1, 2, 3), (-3, 0, 2)) else (False,)):
                desc = f"{desc0} fh={'abs' if absolute else 'rel'}{list(fh)}"
                try:
                    got = f.predict(_mk_fh(fh, absolute, idx_all, n))
                except Exception as e:
                    R.check(key + "-no-error", False, f"{desc}: {type(e).__name__}: {e}")
                    continue
                pos = [n - 1 + h for h in fh]
                exp = _ref_at(ref, pos)
                want_index = list(idx_all[pos])
                R.check("adapter-forecast-index", list(got.index) == want_index, f"{desc}: index {list(got.index)} expected {want_index}")
                R.check(key + ("" if mode == "fit" else "-after-" + mode), _same(got.to_numpy(), exp, rtol=1e-7, atol=1e-7),
                        f"{desc}: got {_fmt(got.to_numpy())}; statsmodels with the same options gives {_fmt(exp)}")


def es_option_sets(sp, tier):
    models = [dict(), dict(trend="add"), dict(trend="mul"), dict(trend="add", damped_trend=True), dict(trend="mul", damped_trend=True),
              dict(seasonal="add", sp=sp), dict(seasonal="mul", sp=sp), dict(trend="add", seasonal="add", sp=sp),
              dict(trend="add", seasonal="mul", sp=sp), dict(trend="add", damped_trend=True, seasonal="add", sp=sp),
              dict(trend="mul", seasonal="mul", sp=sp), dict(trend="additive", seasonal="multiplicative", sp=sp)]
    out = [dict(m) for m in models]
    few = [models[0], models[1], models[7]] if tier == "quick" else [models[0], models[1], models[3], models[5], models[7], models[8]]
    for bc in (False, True, 0.0, 0, 0.5, 1.0, -0.5) if tier != "quick" else (False, True, 0.0, 0, 0.5):
        for m in few:
            out.append(dict(m, use_boxcox=bc))
    for init in ("heuristic", "legacy-heuristic"):
        for m in few:
            out.append(dict(m, initialization_method=init))
    out.append(dict(initialization_method="known", initial_level=45.0))
    out.append(dict(initialization_method="known", initial_level=45.0, initial_trend=1.5, trend="add"))
    out.append(dict(initialization_method="known", initial_level=45.0, initial_trend=1.5, trend="add", use_boxcox=0.0))
    out.append(dict(initialization_method="known", initial_level=45.0, initial_seasonal=[float(i % 3) - 1.0 for i in range(sp)], seasonal="add", sp=sp))
    return out


def ets_option_sets(sp, tier):
    out = []
    for error in ("add", "mul"):
        for trend, damped in ((None, False), ("add", False), ("add", True), ("mul", False), ("mul", True)):
            for seasonal in (None, "add", "mul"):
                o = dict(error=error)
                if trend:
                    o.update(trend=trend, damped_trend=damped)
                if seasonal:
                    o.update(seasonal=seasonal, sp=sp)
                out.append(o)
    few = [dict(), dict(error="mul", trend="add"), dict(trend="add", damped_trend=True, seasonal="add", sp=sp)]
    for m in few:
        out.append(dict(m, initialization_method="heuristic"))
        out.append(dict(m, maxiter=3))
        out.append(dict(m, bounds={"smoothing_level": (0.1, 0.3)}))
    out.append(dict(start_params=[0.4, 44.0]))
    out.append(dict(trend="add", start_params=[0.4, 0.1, 44.0, 1.0], maxiter=5))
    out.append(dict(initialization_method="known", initial_level=45.0))
    out.append(dict(initialization_method="known", initial_level=45.0, initial_trend=1.5, trend="add"))
    out.append(dict(initialization_method="known", initial_level=45.0, initial_seasonal=[float(i % 3) - 1.0 for i in range(sp)], seasonal="add", sp=sp))
    return out


def ets_auto_case(R, v, opts, l0=0):
    """automatic selection: the forecasts are those of the ETS model with the selected components, and the selected model
    attains the smallest information criterion over the documented candidate set"""
    from sktime.forecasting.ets import AutoETS
    n = len(v)
    y = pd.Series(np.asarray(v, dtype=float), index=pd.RangeIndex(l0, l0 + n))
    desc = f"AutoETS({', '.join(f'{a}={b!r}' for a, b in opts.items())}) y={_fmt(v)} index=range@{l0}"
    ic = opts.get("information_criterion", "aic")
    sp = opts.get("sp", 1)
    with warnings.catch_warnings():
        warnings.simplefilter("ignore")
        try:
            f = AutoETS(**opts).fit(y)
            got = f.predict([-2, 0, 1, 2, sp + 3]).to_numpy()
            m = f._forecaster
            chosen = dict(error=m.error, trend=m.trend, damped_trend=bool(m.damped_trend), seasonal=m.seasonal)
            chosen_ic = float(getattr(f._fitted_forecaster, ic))
        except Exception as e:
            R.check("ets-auto-no-error", False, f"{desc}: {type(e).__name__}: {e}")
            return
        if chosen["seasonal"]:
            chosen["sp"] = sp
        exp = _ref_at(ets_reference(v, chosen), [n - 3, n - 1, n, n + 1, n + sp + 2])
        R.check("ets-auto-forecast-of-selected-model", _same(got, exp, rtol=1e-7, atol=1e-7), f"{desc}: selected {chosen}; got {_fmt(got)} expected {_fmt(exp)}")
        best, best_o = np.inf, None
        trends = ["add", None] + (["mul"] if opts.get("allow_multiplicative_trend") else [])
        for error in ("add", "mul"):
            for trend in trends:
                for seasonal in ((None,) if sp <= 1 else ("add", "mul", None)):
                    for damped in (True, False):
                        if trend is None and damped:
                            continue
                        if error == "add" and (trend == "mul" or seasonal == "mul"):
                            continue        # infinite variance (restrict=True)
                        if error == "mul" and trend == "mul" and seasonal == "add":
                            continue
                        if opts.get("additive_only") and "mul" in (error, trend, seasonal):
                            continue
                        o = dict(error=error, trend=trend, damped_trend=damped, seasonal=seasonal)
                        if seasonal:
                            o["sp"] = sp
                        try:
                            val = float(getattr(ets_reference(v, o), ic))
                        except Exception:
                            continue
                        if val < best:
                            best, best_o = val, o
        R.check("ets-auto-selects-minimum-criterion", np.isfinite(chosen_ic) and chosen_ic <= best + 1e-6 * max(1.0, abs(best)),
                f"{desc}: selected {chosen} with {ic}={chosen_ic}; candidate {best_o} has {ic}={best}")


def run_adapters(R, tier, rng):
    sps = (4,) if tier == "quick" else (4, 3, 2, 6)
    for si, sp in enumerate(sps):
        n = {4: 20, 3: 17, 2: 14, 6: 27}[sp]
        series = [("season", _pos_series(rng, n, "season", sp)), ("flat", _pos_series(rng, n + 1, "flat", sp))]
        for name, v in series:
            for j, o in enumerate(es_option_sets(sp, tier)):
                if name == "flat" and tier == "quick" and ("seasonal" in o or o.get("trend") == "mul"):
                    continue
                kind, l0 = (("range", 3), ("int", 5), ("range", 0))[j % 3]
                adapter_case(R, "es", v, o, kind, l0, tag=f"[{name}] ")
            for j, o in enumerate(ets_option_sets(sp, tier)):
                if name == "flat" and tier == "quick" and j % 3:
                    continue
                adapter_case(R, "ets", v, o, ("range", "int")[j % 2], (3, 5)[j % 2], tag=f"[{name}] ")
        # cutoff moved by update / refit / reconfiguration
        v = series[0][1]
        seq = [dict(), dict(trend="add"), dict(trend="add", use_boxcox=0.0), dict(trend="add", seasonal="add", sp=sp), dict(use_boxcox=0.5), dict(trend="add", damped_trend=True)]
        for j, o in enumerate(seq):
            for k in (n - 3, n - 6):
                adapter_case(R, "es", v, o, "range", 2, mode="update", k=k, fhs=[(1, 2, 3), (2, 5), (-4, 0, 1)])
                adapter_case(R, "es", v, o, "range", 2, mode="update-refit", k=k, fhs=[(1, 2, 3), (2, 5), (-4, 0, 1)])
            adapter_case(R, "es", v, o, "int", 4, mode="reconfigure", prev=seq[(j + 3) % len(seq)], fhs=[(1, 2, 3), (-2, 0, 4)])
        eseq = [dict(), dict(error="mul", trend="add"), dict(trend="add", damped_trend=True), dict(seasonal="add", sp=sp), dict(maxiter=3, trend="add")]
        for j, o in enumerate(eseq):
            adapter_case(R, "ets", v, o, "range", 2, mode="update", k=n - 4, fhs=[(1, 2, 3), (2, 5), (-4, 0, 1)])
            adapter_case(R, "ets", v, o, "range", 2, mode="update-refit", k=n - 4, fhs=[(1, 2, 3), (2, 5), (-4, 0, 1)])
            adapter_case(R, "ets", v, o, "int", 4, mode="reconfigure", prev=eseq[(j + 2) % len(eseq)], fhs=[(1, 2, 3), (-2, 0, 4)])
        # automatic ETS
        autos = [dict(auto=True), dict(auto=True, sp=sp)]
        if tier != "quick":
            autos += [dict(auto=True, sp=sp, information_criterion="bic"), dict(auto=True, information_criterion="aicc"),
                      dict(auto=True, sp=sp, allow_multiplicative_trend=True), dict(auto=True, sp=sp, additive_only=True)]
        for o in autos:
            for name, v in series[: (1 if tier == "quick" else 2)]:
                ets_auto_case(R, v, o, l0=si)


# ---------------------------------------------------------------------------------------------------------
# theta forecaster: SES on the seasonally adjusted series + half the OLS slope as drift, reseasonalised
# ---------------------------------------------------------------------------------------------------------
def seasonal_indices(v, sp):
    """classical multiplicative decomposition: centred moving average, ratios averaged per season, normalised to mean 1"""
    n = len(v)
    filt = (np.array([0.5] + [1.0] * (sp - 1) + [0.5]) if sp % 2 == 0 else np.ones(sp)) / sp
    half = (len(filt) - 1) // 2
    trend = np.full(n, np.nan)
    for i in range(half, n - half):
        trend[i] = float(np.dot(filt, v[i - half:i + half + 1]))
    ratio = v / trend
    s = np.array([np.nanmean(ratio[j::sp]) for j in range(sp)])
    return s / s.mean()


def theta_ref(v, sp, deseason, initial_level, hs, contiguous_bug=False):
    n = len(v)
    s = seasonal_indices(v, sp) if (deseason and sp > 1) else np.ones(1)
    yd = v / s[np.arange(n) % len(s)]
    res = es_reference(yd, dict(initialization_method="known", initial_level=initial_level) if initial_level else dict(initialization_method="estimated"))
    a = float(res.params["smoothing_level"])
    b = float(np.polyfit(np.arange(n, dtype=float), yd, 1)[0])
    ses = _ref_at(res, [n - 1 + h for h in hs])
    out = []
    for j, h in enumerate(hs):
        drift = b / 2 * h if np.isclose(a, 0.0) else b / 2 * (h + (1 - (1 - a) ** n) / a)
        season_pos = (n - 1 + hs[0] + j) if contiguous_bug else (n - 1 + h)
        out.append((ses[j] + drift) * s[season_pos % len(s)])
    return np.array(out)


def theta_case(R, v, sp, deseason, initial_level, hs, l0=0, kind="range", absolute=False, mode="fit"):
    from sktime.forecasting.theta import ThetaForecaster
    n = len(v)
    idx_all = _ext_index(kind, l0, n, max(hs) + 1)
    y = pd.Series(np.asarray(v, dtype=float), index=idx_all[:n])
    desc = (f"ThetaForecaster(sp={sp}, deseasonalize={deseason}, initial_level={initial_level}) y={_fmt(v)} index={kind}@{l0} mode={mode} "
            f"fh={'abs' if absolute else 'rel'}{list(hs)}")
    with warnings.catch_warnings():
        warnings.simplefilter("ignore")
        try:
            exp = theta_ref(v, sp, deseason, initial_level, hs)
        except Exception:
            return
        try:
            f = ThetaForecaster(sp=sp, deseasonalize=deseason, initial_level=initial_level)
            if mode == "fit":
                got = f.fit(y.copy()).predict(_mk_fh(hs, absolute, idx_all, n))
            elif mode == "fit-fh":
                got = f.fit(y.copy(), fh=_mk_fh(hs, absolute, idx_all, n)).predict()
            else:
                f.fit(y.copy()).predict([1, 2])
                got = f.fit(y.copy()).predict(_mk_fh(hs, absolute, idx_all, n))
        except Exception as e:
            R.check("theta-no-error", False, f"{desc}: {type(e).__name__}: {e}")
            return
    want_index = list(idx_all[[n - 1 + h for h in hs]])
    R.check("adapter-forecast-index", list(got.index) == want_index, f"{desc}: index {list(got.index)} expected {want_index}")
    g = got.to_numpy()
    ok = _same(g, exp, rtol=1e-7, atol=1e-7)
    gapped = list(hs) != list(range(hs[0], hs[0] + len(hs)))
    if not ok and gapped and deseason and sp > 1:
        with warnings.catch_warnings():
            warnings.simplefilter("ignore")
            wrong = theta_ref(v, sp, deseason, initial_level, hs, contiguous_bug=True)
        if _same(g, wrong, rtol=1e-7, atol=1e-7):
            R.check("KF:theta-gapped-horizon-reseasonalised-as-if-contiguous", False,
                    f"{desc}: got {_fmt(g)} expected {_fmt(exp)}: the seasonal factors are applied as if the horizon were the consecutive steps "
                    f"{list(range(hs[0], hs[0] + len(hs)))}")
            return
    R.check("theta-ses-plus-drift-reseasonalised" if (deseason and sp > 1) else "theta-ses-plus-drift", ok, f"{desc}: got {_fmt(g)} expected {_fmt(exp)}")


def run_theta(R, tier, rng):
    sizes = (13, 20) if tier == "quick" else (12, 13, 17, 20, 23, 26)
    for n in sizes:
        for shape in ("season", "flat"):
            for sp in (1, 2, 3, 4) if tier == "quick" else (1, 2, 3, 4, 5, 6):
                if n < 2 * sp + 1:
                    continue
                v = _pos_series(rng, n, shape, sp)
                for deseason in (True, False):
                    for il in (None, 44.0):
                        if tier == "quick" and il and not deseason:
                            continue
                        kind, l0 = (("range", 0), ("range", 3), ("int", 5))[(n + sp) % 3]
                        for hs in ((1,), (1, 2, 3), (2, 3, 4), tuple(range(1, 2 * sp + 3)), (sp + 1, sp + 2), (2, 5), (1, sp + 1, 3 * sp), (3, 2 * sp + 2)):
                            hs = tuple(sorted(set(hs)))
                            theta_case(R, v, sp, deseason, il, hs, l0, kind)
                        theta_case(R, v, sp, deseason, il, (1, 2, 3), l0, kind, absolute=True)
                        theta_case(R, v, sp, deseason, il, (2, 3), l0, kind, mode="fit-fh")
                        theta_case(R, v, sp, deseason, il, (1, 2, 3, 4, 5), l0, kind, mode="refit")


class _one_thread:
    """many tiny statsmodels fits: BLAS worker threads only slow them down"""

    def __enter__(self):
        try:
            import threadpoolctl
            self.ctx = threadpoolctl.threadpool_limits(limits=1)
        except Exception:
            self.ctx = None

    def __exit__(self, *a):
        if self.ctx is not None:
            try:
                self.ctx.restore_original_limits()
            except Exception:
                pass
        return False


def bounded(tier, seed):
    rng = random.Random(seed)
    q = tier == "quick"
    R = Recorder(
        f"NaiveForecaster: every series length 1..{8 if q else 12} (seeded random values), strategies last/mean/drift, sp 1..{4 if q else 5}, "
        f"window_length None and every value sp..n (multiples of sp or not), ~{14 if q else 20} relative horizons per configuration (consecutive, "
        f"gapped, beyond one/two/three seasons, in-sample, whole in-sample range, mixed) plus absolute horizons, fh given in fit, repeated "
        f"predict, fit->update(update_params False/True)->predict for {'half of the' if q else 'all'} split points, two updates, update_predict_single, "
        f"update_predict with sliding cutoffs, set_params+refit between 8 configurations, index RangeIndex@0/@3, integer Index@5, monthly "
        f"PeriodIndex (n=5,8), series with missing values at 7 position patterns (n={'6,8' if q else '6,8,9,11'}); "
        f"PolynomialTrendForecaster: n 3..{9 if q else 13}, degree 1..{3 if q else 4}, with/without intercept, 9 relative + 2 absolute horizons, "
        f"fit/fit-with-fh/repeated predict/update without and with refit/two updates/update_predict_single/refit on shorter series/"
        f"update_predict/set_params+refit, LinearRegression() as regressor; ExponentialSmoothing and AutoETS against statsmodels called "
        f"directly: sp in {(4,) if q else (4, 3, 2, 6)}, two positive series each (trend+season, flat noisy; n 14..28), all trend/damped/"
        f"seasonal combinations, use_boxcox in (False, True, 0.0, 0, 0.5{'' if q else ', 1.0, -0.5'}), initialisation estimated/heuristic/"
        f"legacy-heuristic/known, ETS error add/mul x trend x damped x seasonal, maxiter/start_params/bounds pass-through, 8 horizons each "
        f"(in-sample, gapped, beyond one season, absolute), update without/with refit, set_params+refit, AutoETS(auto=True) for "
        f"{2 if q else 6} option sets; ThetaForecaster: n in {(13, 20) if q else (12, 13, 17, 20, 23, 26)}, sp 1..{4 if q else 6}, "
        f"deseasonalize on/off, initial_level None/44, 8 out-of-sample horizons + absolute + fh in fit + refit. "
        f"NOT covered: DatetimeIndex (no freq support under the shim), PeriodIndex for trend/adapters (to_absolute_int fails under pandas 2), "
        f"in-sample and update sequences of ThetaForecaster (not documented), prediction intervals, statsmodels 'log' box-cox (rejected by "
        f"statsmodels 0.15), missing values for trend/adapters (unsupported), n_jobs != None.")
    with _one_thread():
        run_naive(R, tier, rng)
        run_naive_update_predict(R, tier, rng)
        run_trend(R, tier, rng)
        run_trend_update_predict(R, tier, rng)
        run_adapters(R, tier, rng)
        run_theta(R, tier, rng)
    return R.result()


def _floats_from_model(model, name, n, rng):
    tab = model.get(name)
    out = []
    if isinstance(tab, (list, tuple)):
        for x in tab[:n]:
            try:
                out.append(float(x))
            except (TypeError, ValueError):
                out.append(round(rng.uniform(5, 30), 3))
    while len(out) < n:
        out.append(round(10.0 + 3.0 * len(out) + rng.uniform(-6, 6), 3))
    return np.array(out, dtype=float)


def replay(rec):
    m = rec.get("model") or {}
    target, case = str(rec.get("target", "")), str(rec.get("case", ""))
    text = (target + " " + case + " " + str(rec.get("obligation", ""))).lower()
    rng = random.Random(0)
    R = Recorder("replay")
    n = min(max(mint(m, "n", 7), 2), 30)
    sp = min(max(mint(m, "sp", 1), 1), 12)
    w = mint(m, "window_length", 0) or mint(m, "w", 0)
    w = None if w <= 0 else min(w, n)
    nf = min(max(mint(m, "len(fh)", 0), 0), 8)
    fh = []
    if nf:
        tab = m.get("fh") or []
        for i in range(nf):
            try:
                fh.append(int(tab[i]))
            except (IndexError, TypeError, ValueError):
                fh.append(i + 1)
    fh = tuple(sorted(set(h for h in fh if n - 1 + h >= 0 and h <= 40))) or tuple(sorted({1, 2, sp + 1}))
    l0 = mint(m, "l0", 3)
    inp = {"n": n, "sp": sp, "window_length": w, "fh": list(fh), "l0": l0}
    with _one_thread():
        if "naive" in text:
            v = _floats_from_model(m, "y", n, rng)
            inp["y"] = v.tolist()
            strategies = [s for s in ("last", "mean", "drift") if s in text] or ["last", "mean", "drift"]
            for strategy in strategies:
                spp = 1 if strategy == "drift" else sp
                for wl in {w, None}:
                    if strategy == "last":
                        wl = None
                    if (strategy == "mean" and wl is not None and wl < spp) or (strategy == "drift" and wl == 1) or (strategy == "last" and spp > n):
                        continue
                    for ff in (fh, (1, 2, spp + 1), tuple(range(1, 2 * spp + 2)), (-1, 0, 1)):
                        naive_case(R, v, strategy, spp, wl, ff, "range", l0)
                    k = max(n // 2, wl or 1, spp, 2)
                    if k < n and (wl is not None or strategy == "last"):
                        naive_case(R, v, strategy, spp, wl, fh if fh[0] > 0 else (1, 2), "range", l0, mode="update", k=k)
        elif "trend" in text or "polynomial" in text:
            degree = min(max(mint(m, "degree", 1), 1), 4)
            n = max(n, degree + 3)
            v = _floats_from_model(m, "y", n, rng)
            inp.update(n=n, degree=degree, y=v.tolist())
            for intercept in (True, False):
                for ff in (fh, (1, 2, 3), (-2, 0, 2)):
                    trend_case(R, v, degree, intercept, ff, "range", l0)
                    for mode in ("update", "update-refit", "update-predict-single"):
                        trend_case(R, v, degree, intercept, ff, "range", l0, mode=mode, k=max(degree + 2, n - 2))
        elif "theta" in text:
            n = max(n, 2 * sp + 5)
            v = _pos_series(rng, n, "season", sp)
            inp.update(n=n, y=v.tolist())
            for deseason in (True, False):
                for ff in (tuple(h for h in fh if h > 0) or (1, 2), (1, 2, 3), (2, 5)):
                    theta_case(R, v, sp, deseason, None, ff, l0)
        elif "ets" in text:
            sp = max(sp, 2)
            v = _pos_series(rng, max(n, 4 * sp + 4), "season", sp)
            inp.update(n=len(v), y=v.tolist())
            for o in ets_option_sets(sp, "quick")[:30:3]:
                adapter_case(R, "ets", v, o, "range", l0, fhs=[fh, (1, 2, 3)])
        elif "smoothing" in text or "statsmodels" in text or "adapter" in text:
            sp = max(sp, 2)
            v = _pos_series(rng, max(n, 4 * sp + 4), "season", sp)
            inp.update(n=len(v), y=v.tolist())
            for o in es_option_sets(sp, "quick"):
                if o.get("seasonal") in (None,) or "use_boxcox" in o:
                    adapter_case(R, "es", v, o, "range", l0, fhs=[fh, (1, 2, 3)])
        else:
            for nn in (4, 6):
                v = _values(rng, nn)
                for strategy, spp, wl in naive_configs(nn, "quick"):
                    naive_case(R, v, strategy, spp, wl, (1, 2, spp + 1), "range", l0)
                trend_case(R, v, 1, True, (1, 2), "range", l0, mode="update", k=3)
    # the known defects of the unchanged tree (KF:*) are reported separately: they do not confirm an unrelated counterexample
    f = [x for x in R.failures if not x["key"].startswith("KF:")]
    known = [x for x in R.failures if x["key"].startswith("KF:")]
    return {"reproduced": bool(f), "detail": f[:3], "known": known[:3], "input": inp}
