"""C12 native oracle: applying an estimator is pure, reproducible and independent of scheduling.

Every runnable estimator of the snapshot is put through the same protocol on small inputs (the REAL fit / predict /
predict_proba / transform / inverse_transform code runs):

  * the caller's objects (training data, apply-time data, horizons) are snapshotted bit for bit before every fit and
    every apply-type call and compared afterwards;
  * reference results come from a fresh estimator (equal parameters, fitted on an equal but separate copy of the
    data) on which ONLY the one call is made -- so nothing another call did can hide in the reference;
  * a second equal estimator then runs a call sequence that contains every ordered pair of apply-type calls as
    neighbours (each call directly repeated, each call directly after every other call) plus a seeded random walk;
    every returned value must equal the reference of that call;
  * a pickled-and-restored copy (taken right after fit, and again after the whole call sequence) must return the
    references too;
  * estimators with an n_jobs parameter are fitted with n_jobs in {None, 1, 2, 4} under joblib's threading backend
    and must return the references;
  * an estimator that was fitted on other data before (and had set_params called with its own parameters) and is then
    refitted on the data must return the references (equal parameters + equal data -> equal results);
  * the global numpy / python random generators are re-seeded differently before every fit: an integer random_state
    must make the result independent of them.

The expectation is therefore never computed by "the same call on the same object": it is the statement of the
property itself (equality between separately built, equal estimators), evaluated with plain numpy comparisons.
"""
import pickle
import random
import warnings

import numpy as np
import pandas as pd

from .common import Recorder, mint

K_RAISE = "listed-case-runs"                       # a listed (normally runnable) fit / call raised
K_FITDATA = "fit-leaves-caller-data-unchanged"
K_APPDATA = "apply-leaves-caller-data-unchanged"
K_EQUAL = "equal-params-equal-data-equal-result"
K_REPEAT = "repeated-call-same-result"
K_INTER = "interleaved-calls-same-result"
K_PICKLE = "pickled-copy-same-result"
K_NJOBS = "result-independent-of-n-jobs"
K_REFIT = "refit-after-other-data-equal-result"


# =============================================================================================== value helpers
def _is_num(dt):
    return dt.kind in "iufcb"


def snap(o):
    """bit-exact, hashable-ish picture of a caller's object (values, dtypes, labels); independent of the object"""
    if isinstance(o, pd.DataFrame):
        return ("D", snap(o.index), tuple(str(c) for c in o.columns),
                tuple(snap(o.iloc[:, j]) for j in range(o.shape[1])))
    if isinstance(o, pd.Series):
        return ("S", snap(o.index), str(o.dtype), str(o.name), snap(o.to_numpy()))
    if isinstance(o, pd.Index):
        return ("I", type(o).__name__, str(o.dtype), tuple(str(v) for v in o))
    if isinstance(o, np.ndarray):
        if o.dtype == object:
            return ("O", o.shape, tuple(snap(v) for v in o.ravel()))
        return ("A", o.shape, str(o.dtype), np.ascontiguousarray(o).tobytes())
    if isinstance(o, dict):
        return ("M", tuple((k, snap(v)) for k, v in sorted(o.items())))
    if isinstance(o, (list, tuple)):
        return ("L", type(o).__name__, tuple(snap(v) for v in o))
    return ("P", type(o).__name__, repr(o))


def freeze(o):
    """private deep copy of a returned value (cells of nested frames included)"""
    if isinstance(o, pd.DataFrame):
        out = pd.DataFrame({j: freeze(o.iloc[:, j]) for j in range(o.shape[1])})
        out.columns = o.columns.copy()
        return out
    if isinstance(o, pd.Series):
        if o.dtype == object:
            return pd.Series([freeze(v) for v in o.tolist()], index=o.index.copy(), name=o.name, dtype=object)
        return o.copy(deep=True)
    if isinstance(o, np.ndarray):
        if o.dtype == object:
            out = np.empty(o.shape, dtype=object)
            flat = out.ravel()
            for i, v in enumerate(o.ravel()):
                flat[i] = freeze(v)
            return out
        return o.copy()
    if isinstance(o, dict):
        return {k: freeze(v) for k, v in o.items()}
    if isinstance(o, (list, tuple)):
        return type(o)(freeze(v) for v in o)
    if hasattr(o, "toarray") and hasattr(o, "copy"):
        return o.copy()
    return o


RTOL, ATOL = 1e-9, 1e-11


def _arr_same(a, b):
    if a.shape != b.shape:
        return False
    if a.dtype == object or b.dtype == object:
        return all(same(x, y) for x, y in zip(a.ravel(), b.ravel()))
    if _is_num(a.dtype) and _is_num(b.dtype):
        if a.dtype.kind in "fc" or b.dtype.kind in "fc":
            return bool(np.allclose(a, b, rtol=RTOL, atol=ATOL, equal_nan=True))
        return bool(np.array_equal(a, b))
    try:
        return bool(np.array_equal(a, b))
    except Exception:
        return False


def same(a, b):
    """two returned values are equal: same container type, same labels, same values (NaN == NaN, 1e-9 tolerance)"""
    if a is None or b is None:
        return a is None and b is None
    if isinstance(a, pd.DataFrame) or isinstance(b, pd.DataFrame):
        if not (isinstance(a, pd.DataFrame) and isinstance(b, pd.DataFrame)):
            return False
        if a.shape != b.shape or not a.index.equals(b.index) or list(map(str, a.columns)) != list(map(str, b.columns)):
            return False
        return all(same(a.iloc[:, j], b.iloc[:, j]) for j in range(a.shape[1]))
    if isinstance(a, pd.Series) or isinstance(b, pd.Series):
        if not (isinstance(a, pd.Series) and isinstance(b, pd.Series)):
            return False
        if len(a) != len(b) or not a.index.equals(b.index):
            return False
        return _arr_same(a.to_numpy(), b.to_numpy())
    if isinstance(a, np.ndarray) or isinstance(b, np.ndarray):
        if not (isinstance(a, np.ndarray) and isinstance(b, np.ndarray)):
            return False
        return _arr_same(a, b)
    if hasattr(a, "toarray") or hasattr(b, "toarray"):
        if not (hasattr(a, "toarray") and hasattr(b, "toarray")):
            return False
        return _arr_same(np.asarray(a.toarray()), np.asarray(b.toarray()))
    if isinstance(a, dict) or isinstance(b, dict):
        if not (isinstance(a, dict) and isinstance(b, dict)) or set(a) != set(b):
            return False
        return all(same(a[k], b[k]) for k in a)
    if isinstance(a, (list, tuple)) or isinstance(b, (list, tuple)):
        if not (isinstance(a, (list, tuple)) and isinstance(b, (list, tuple))) or len(a) != len(b):
            return False
        return all(same(x, y) for x, y in zip(a, b))
    if isinstance(a, (int, float, np.number)) and isinstance(b, (int, float, np.number)):
        return bool(np.isclose(float(a), float(b), rtol=RTOL, atol=ATOL, equal_nan=True))
    try:
        return bool(a == b)
    except Exception:
        return False


def brief(o, k=6):
    """short printable form of a value for failure details"""
    try:
        if isinstance(o, pd.DataFrame):
            cell = o.iloc[0, 0] if o.size else None
            if isinstance(cell, (pd.Series, np.ndarray)):
                return f"nested{o.shape} first cell {brief(cell, k)}"
            return f"frame{o.shape} index[{o.index[0]}..{o.index[-1]}] " + "; ".join(
                f"{c}={brief(o[c].to_numpy(), k)}" for c in list(o.columns)[:3])
        if isinstance(o, pd.Series):
            if len(o) == 0:
                return "empty series"
            return f"series(n={len(o)}, index {o.index[0]}..{o.index[-1]}) {brief(o.to_numpy(), k)}"
        if isinstance(o, np.ndarray):
            flat = o.ravel()
            if o.dtype == object:
                return f"array{o.shape} of objects, first {brief(flat[0], k) if flat.size else ''}"
            if o.dtype.kind in "fc":
                vals = [round(float(v), 6) for v in flat[:k]]
            else:
                vals = flat[:k].tolist()
            return f"{o.dtype}{list(o.shape)} {vals}" + ("..." if flat.size > k else "")
        if isinstance(o, (list, tuple)):
            return "(" + ", ".join(brief(v, k) for v in o[:3]) + ")"
        if hasattr(o, "toarray"):
            return "sparse " + brief(np.asarray(o.toarray()), k)
        return repr(o)[:80]
    except Exception:
        return repr(o)[:80]


def diff_note(a, b):
    """where two values differ (for the detail string)"""
    try:
        if isinstance(a, pd.Series) and isinstance(b, pd.Series):
            if len(a) != len(b) or not a.index.equals(b.index):
                return f"index {list(a.index[:3])}..{list(a.index[-1:])} (n={len(a)}) vs {list(b.index[:3])}..{list(b.index[-1:])} (n={len(b)})"
            if a.dtype != object and b.dtype != object:
                av, bv = a.to_numpy(dtype=float), b.to_numpy(dtype=float)
                bad = ~(np.isclose(av, bv, rtol=RTOL, atol=ATOL, equal_nan=True))
                pos = np.flatnonzero(bad)[:4]
                return f"differs at labels {[a.index[i] for i in pos]}: {av[pos].tolist()} vs {bv[pos].tolist()}"
        if isinstance(a, np.ndarray) and isinstance(b, np.ndarray) and a.shape == b.shape and a.dtype != object:
            if _is_num(a.dtype) and _is_num(b.dtype):
                bad = ~np.isclose(a.astype(float), b.astype(float), rtol=RTOL, atol=ATOL, equal_nan=True)
            else:
                bad = a != b
            pos = np.argwhere(bad)[:4]
            return f"differs at positions {[tuple(int(x) for x in p) for p in pos]}: " \
                   f"{[a[tuple(p)].tolist() for p in pos]} vs {[b[tuple(p)].tolist() for p in pos]}"
    except Exception:
        pass
    return f"{brief(a)} vs {brief(b)}"


def changed_note(before, after_obj_dict, snaps):
    """which caller object changed, in words"""
    out = []
    for k, s in snaps.items():
        if snap(after_obj_dict[k]) != s:
            out.append(f"'{k}' is now {brief(after_obj_dict[k], 10)} (was {brief(before[k], 10)})")
    return "; ".join(out)


def euler_sequence(k, start=0):
    """closed walk over the complete directed graph with loops on k nodes: every ordered pair (i, j), i == j
    included, occurs as neighbours exactly once (length k*k + 1)"""
    nxt = {i: [(i + d) % k for d in range(k)] for i in range(k)}       # loop first, then the others
    stack, out = [start], []
    while stack:
        v = stack[-1]
        if nxt[v]:
            stack.append(nxt[v].pop(0))
        else:
            out.append(stack.pop())
    return out[::-1]


def scramble_global_rng(token):
    np.random.seed((token * 7919 + 13) % (2 ** 31 - 1))
    random.seed(token * 104729 + 7)


# ====================================================================================================== data
def make_index(kind, start, n):
    if kind == "range":
        return pd.RangeIndex(start, start + n)
    if kind == "int64":
        return pd.Index(np.arange(start, start + n, dtype="int64"))
    if kind == "period":
        return pd.period_range(pd.Period("2001-01", freq="M") + int(start), periods=n, freq="M")
    if kind == "datetime":
        return pd.date_range(pd.Timestamp("2001-01-01") + pd.Timedelta(days=int(start)), periods=n, freq="D")
    raise ValueError(kind)


def series_values(n, seed, sp=4, positive=True):
    rng = np.random.RandomState(1000 + seed)
    pattern = rng.uniform(0.5, 3.0, sp)
    v = 10.0 + 0.3 * np.arange(n) + np.resize(pattern, n) + rng.normal(0, 0.4, n)
    if not positive:
        v = v - v.mean()
    return np.round(v, 4)


def make_series(n, seed=0, kind="range", start=0, sp=4, positive=True, nan_at=(), spikes=(), integer=False):
    v = series_values(n, seed, sp, positive)
    for p, val in spikes:
        if p < n:
            v[p] = val
    if integer:
        v = np.round(v).astype("int64")
        return pd.Series(v, index=make_index(kind, start, n))
    for p in nan_at:
        if p < n:
            v[p] = np.nan
    return pd.Series(v, index=make_index(kind, start, n))


def make_frame(n, seed=0, kind="range", start=0, ncols=2, **kw):
    cols = {}
    for c in range(ncols):
        kw_c = dict(kw)
        if "nan_at" in kw_c:
            kw_c["nan_at"] = tuple((p + 2 * c) % n for p in kw_c["nan_at"])
        if "spikes" in kw_c:
            kw_c["spikes"] = tuple(((p + 3 * c) % n, v) for p, v in kw_c["spikes"])
        cols["c%d" % c] = make_series(n, seed + 17 * c, kind, start, **kw_c).to_numpy()
    return pd.DataFrame(cols, index=make_index(kind, start, n))


def panel_values(n_inst, n_cols, m, seed, noise=0.3, n_classes=2):
    """n_inst x n_cols x m array and labels: class-dependent wave forms plus noise"""
    rng = np.random.RandomState(2000 + seed)
    t = np.arange(m)
    labels = np.array(["a", "b", "c"][:n_classes] * (n_inst // n_classes + 1))[:n_inst]
    X = np.zeros((n_inst, n_cols, m))
    for i in range(n_inst):
        for c in range(n_cols):
            if labels[i] == "a":
                base = np.sin(t / (2.0 + c))
            elif labels[i] == "b":
                base = np.sign(np.sin(t / (3.0 + c)))
            else:
                base = np.cos(t / 1.5) * (t / m)
            X[i, c] = base + noise * rng.randn(m)
    return np.round(X, 5), labels


def to_nested(X3, start=0):
    n, c, m = X3.shape
    return pd.DataFrame({"dim_%d" % j: [pd.Series(X3[i, j].copy(), index=pd.RangeIndex(0, m)) for i in range(n)]
                         for j in range(c)}, index=pd.RangeIndex(start, start + n))


def as_container(X3, container, start=0):
    return to_nested(X3, start) if container == "nested" else X3.copy()


# =================================================================================================== protocol
class Call:
    def __init__(self, label, fn, inputs=None):
        self.label, self.fn, self.inputs = label, fn, inputs


class Subject:
    """one estimator configuration + data + the apply-type calls exercised on it"""

    def __init__(self, name, make, data, fit, calls, n_jobs=(), other_fit=None, reproducible=True, fresh_refs=True):
        self.name = name
        self.make = make              # make(**overrides) -> new unfitted estimator with the same parameters every time
        self.data = data              # data() -> dict name -> new equal caller objects every time
        self.fit = fit                # fit(est, d) -> fitted est (may include update steps)
        self.calls = calls
        self.n_jobs = tuple(n_jobs)   # values of the n_jobs parameter to compare (empty: no such parameter)
        self.other_fit = other_fit    # other_fit(est, d): fit on different data first (then set_params + refit)
        self.reproducible = reproducible    # False: random_state=None -> only the purity clauses apply
        self.fresh_refs = fresh_refs  # False (expensive fit): all references from one estimator, in call order


def _quiet(fn):
    with warnings.catch_warnings():
        warnings.simplefilter("ignore")
        return fn()


def _err(e):
    return f"{type(e).__name__}: {str(e)[:200]}"


class Runner:
    def __init__(self, R, seed):
        self.R = R
        self.seed = seed
        self.token = seed * 1000 + 1

    # -- one fitted estimator on a fresh copy of the data; checks that fit left the data alone
    def fitted(self, S, how="fit", count_fit_check=True, **over):
        d = S.data()
        before = S.data()
        snaps = {k: snap(v) for k, v in d.items()}
        self.token += 1
        scramble_global_rng(self.token)
        try:
            est = S.make(**over)
            if how == "refit":
                _quiet(lambda: S.other_fit(est, d))
                est.set_params(**est.get_params(deep=False))
            est = _quiet(lambda: S.fit(est, d))
        except Exception as e:
            self.R.check(K_RAISE, False, f"{S.name}: {how}({over or ''}) raised {_err(e)}")
            return None, None, None
        if count_fit_check:
            ok = all(snap(d[k]) == s for k, s in snaps.items())
            self.R.check(K_FITDATA, ok, f"{S.name}: after {how} the caller's data changed: "
                         + (changed_note(before, d, snaps) if not ok else ""))
            if not ok:
                d = S.data()
                snaps = {k: snap(v) for k, v in d.items()}
        return est, d, snaps

    def apply(self, S, est, d, snaps, call, history=""):
        """run one apply-type call; check the caller's data afterwards; returns (ok, frozen result)"""
        try:
            r = _quiet(lambda: call.fn(est, d))
        except Exception as e:
            return False, _err(e)
        r = freeze(r)
        ok = all(snap(d[k]) == s for k, s in snaps.items())
        if not ok:
            before = S.data()
            note = changed_note(before, d, snaps)
            self.R.check(K_APPDATA, False, f"{S.name}: {call.label}{history} modified the caller's data: {note}")
            # restore so that the following calls see the original input again
            fresh = S.data()
            for k in list(d):
                d[k] = fresh[k]
                snaps[k] = snap(fresh[k])
        else:
            self.R.check(K_APPDATA, True, "")
        return True, r

    def run(self, S, tier):
        R = self.R
        calls = S.calls
        k = len(calls)
        # ---------------------------------------------------------------- references
        refs = [None] * k
        if S.fresh_refs and S.reproducible:
            for i, c in enumerate(calls):
                est, d, snaps = self.fitted(S, count_fit_check=(i == 0))
                if est is None:
                    return
                ok, r = self.apply(S, est, d, snaps, c, " (first call on a fresh estimator)")
                if not ok:
                    R.check(K_RAISE, False, f"{S.name}: {c.label} on a freshly fitted estimator raised {r}")
                    return
                refs[i] = r
        else:
            est, d, snaps = self.fitted(S)
            if est is None:
                return
            for i, c in enumerate(calls):
                ok, r = self.apply(S, est, d, snaps, c, f" (after {[x.label for x in calls[:i]]})")
                if not ok:
                    R.check(K_RAISE, False, f"{S.name}: {c.label} raised {r}")
                    return
                refs[i] = r
            if not S.reproducible:
                # purity only: continue on the same estimator
                self.sequence(S, est, d, snaps, refs, euler_sequence(k, k - 1), first_key=K_INTER, pre=[c.label for c in calls])
                self.pickled(S, est, d, snaps, refs, "after the call sequence")
                return
        # ---------------------------------------------------------------- second, equal estimator: call sequence
        est, d, snaps = self.fitted(S, count_fit_check=False)
        if est is None:
            return
        try:
            blob0 = pickle.dumps(est)
        except Exception as e:
            blob0 = None
            R.check(K_PICKLE, False, f"{S.name}: pickling the fitted estimator raised {_err(e)}")
        seq = euler_sequence(k, (self.seed + len(S.name)) % k if S.fresh_refs else k - 1)
        rng = random.Random(self.seed * 31 + len(S.name))
        seq = seq + [rng.randrange(k) for _ in range(k if tier == "quick" else 4 * k)]
        self.sequence(S, est, d, snaps, refs, seq)
        # ---------------------------------------------------------------- pickled copies
        if blob0 is not None:
            try:
                p0 = pickle.loads(blob0)
            except Exception as e:
                p0 = None
                R.check(K_PICKLE, False, f"{S.name}: restoring the pickled fitted estimator raised {_err(e)}")
            if p0 is not None:
                self.pickled_est(S, p0, d, snaps, refs, "pickled right after fit")
        self.pickled(S, est, d, snaps, refs, "pickled after the call sequence")
        # ---------------------------------------------------------------- thorough: every ordered pair on fresh fits
        if tier == "thorough" and S.fresh_refs and k > 1:
            for i in range(k):
                for j in range(k):
                    if i == j:
                        continue
                    e2, d2, s2 = self.fitted(S, count_fit_check=False)
                    if e2 is None:
                        return
                    self.sequence(S, e2, d2, s2, refs, [i, j, i])
        # ---------------------------------------------------------------- refit after other data
        if S.other_fit is not None:
            e3, d3, s3 = self.fitted(S, how="refit", count_fit_check=False)
            if e3 is not None:
                for i, c in enumerate(calls):
                    ok, r = self.apply(S, e3, d3, s3, c)
                    good = ok and same(r, refs[i])
                    R.check(K_REFIT, good, f"{S.name}: fitted on other data, set_params(own params), refitted on the "
                            f"data; {c.label} " + (f"raised {r}" if not ok else f"returned {brief(r)}; a fresh equal "
                            f"estimator returned {brief(refs[i])} [{diff_note(r, refs[i])}]") if not good else "")
        # ---------------------------------------------------------------- n_jobs
        for nj in S.n_jobs:
            e4, d4, s4 = self.fitted(S, count_fit_check=False, n_jobs=nj)
            if e4 is None:
                continue
            for i, c in enumerate(calls):
                ok, r = self.apply(S, e4, d4, s4, c)
                good = ok and same(r, refs[i])
                R.check(K_NJOBS, good, f"{S.name}: n_jobs={nj} (threading backend): {c.label} "
                        + (f"raised {r}" if not ok else f"returned {brief(r)}; with the default n_jobs it returned "
                           f"{brief(refs[i])} [{diff_note(r, refs[i])}]") if not good else "")

    def sequence(self, S, est, d, snaps, refs, seq, first_key=K_EQUAL, pre=()):
        R = self.R
        hist = list(pre)
        for idx in seq:
            c = S.calls[idx]
            h = f" after [{', '.join(hist[-4:])}]" if hist else ""
            ok, r = self.apply(S, est, d, snaps, c, h)
            if not hist:
                key = first_key
            elif hist[-1] == c.label:
                key = K_REPEAT
            else:
                key = K_INTER
            good = ok and same(r, refs[idx])
            if good:
                R.check(key, True, "")
            else:
                what = {K_EQUAL: "first call on a second estimator with equal parameters fitted on equal data",
                        K_REPEAT: "the same call made directly before", K_INTER: "other apply-type calls made before"}[key]
                R.check(key, False, f"{S.name}: {c.label}{h} ({what}) "
                        + (f"raised {r}" if not ok else f"returned {brief(r)}; the reference (only call on a fresh "
                           f"equal estimator) is {brief(refs[idx])} [{diff_note(r, refs[idx])}]"))
            hist.append(c.label)

    def pickled(self, S, est, d, snaps, refs, when):
        try:
            p = pickle.loads(pickle.dumps(est))
        except Exception as e:
            self.R.check(K_PICKLE, False, f"{S.name}: pickle round trip ({when}) raised {_err(e)}")
            return
        self.pickled_est(S, p, d, snaps, refs, when)

    def pickled_est(self, S, p, d, snaps, refs, when):
        for i, c in enumerate(S.calls):
            ok, r = self.apply(S, p, d, snaps, c)
            good = ok and same(r, refs[i])
            self.R.check(K_PICKLE, good, f"{S.name}: copy {when}: {c.label} "
                         + (f"raised {r}" if not ok else f"returned {brief(r)}; the reference is {brief(refs[i])} "
                            f"[{diff_note(r, refs[i])}]") if not good else "")
