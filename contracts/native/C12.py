"""C12 native oracle: applying an estimator is pure, reproducible and independent of scheduling.

Every runnable estimator of the snapshot is put through the same protocol on small inputs (the REAL fit / predict /
predict_proba / transform / inverse_transform code runs):

  * the caller's objects (training data, apply-time data, horizons) are snapshotted bit for bit before every fit and
    every apply-type call and compared afterwards;
  * reference results come from a fresh estimator (equal parameters, fitted on an equal but separate copy of the
    data) on which ONLY the one call is made -- so nothing another call did can hide in the reference;
  * a second equal estimator then runs a call sequence that contains every ordered pair of apply-type calls as
    neighbours (each call directly repeated, each call directly after every other call) plus a seeded random walk;
    every returned value must equal the reference of that call;
  * a pickled-and-restored copy taken right after fit must return the references too (every call on its own restored
    copy); a copy taken after the whole call sequence must agree with the estimator it was copied from;
  * thorough tier: for a rotating quarter of the configurations every ordered pair of calls additionally runs as
    (i, j, i) on its own freshly fitted estimator;
  * estimators with an n_jobs parameter are fitted with n_jobs in {None, 1, 2, 4} under joblib's threading backend
    and must return the references;
  * an estimator that was fitted on other data before (and had set_params called with its own parameters) and is then
    refitted on the data must return the references (equal parameters + equal data -> equal results);
  * the global numpy / python random generators are re-seeded differently before every fit: an integer random_state
    must make the result independent of them.

The expectation is therefore never computed by "the same call on the same object": it is the statement of the
property itself (equality between separately built, equal estimators), evaluated with plain numpy comparisons.
"""
import pickle
import random
import warnings

import numpy as np
import pandas as pd
from sklearn.base import BaseEstimator as SkBaseEstimator
from sklearn.base import RegressorMixin

from .common import Recorder, mint

K_RAISE = "listed-case-runs"                       # a listed (normally runnable) fit / call raised
K_FITDATA = "fit-leaves-caller-data-unchanged"
K_APPDATA = "apply-leaves-caller-data-unchanged"
K_EQUAL = "equal-params-equal-data-equal-result"
K_REPEAT = "repeated-call-same-result"
K_INTER = "interleaved-calls-same-result"
K_PICKLE = "pickled-copy-same-result"
K_NJOBS = "result-independent-of-n-jobs"
K_REFIT = "refit-after-other-data-equal-result"


# =============================================================================================== value helpers
def _is_num(dt):
    return dt.kind in "iufcb"


def snap(o):
    """bit-exact, hashable-ish picture of a caller's object (values, dtypes, labels); independent of the object"""
    if isinstance(o, pd.DataFrame):
        return ("D", snap(o.index), tuple(str(c) for c in o.columns),
                tuple(snap(o.iloc[:, j]) for j in range(o.shape[1])))
    if isinstance(o, pd.Series):
        return ("S", snap(o.index), str(o.dtype), str(o.name), snap(o.to_numpy()))
    if isinstance(o, pd.Index):
        # labels and dtype; not the Index subclass (statsmodels swaps an equal RangeIndex in for an int64 Index)
        return ("I", str(o.dtype), tuple(str(v) for v in o))
    if isinstance(o, np.ndarray):
        if o.dtype == object:
            return ("O", o.shape, tuple(snap(v) for v in o.ravel()))
        return ("A", o.shape, str(o.dtype), np.ascontiguousarray(o).tobytes())
    if isinstance(o, dict):
        return ("M", tuple((k, snap(v)) for k, v in sorted(o.items())))
    if isinstance(o, (list, tuple)):
        return ("L", type(o).__name__, tuple(snap(v) for v in o))
    return ("P", type(o).__name__, repr(o))


def freeze(o):
    """private deep copy of a returned value (cells of nested frames included)"""
    if isinstance(o, pd.DataFrame):
        out = pd.DataFrame({j: freeze(o.iloc[:, j]) for j in range(o.shape[1])})
        out.columns = o.columns.copy()
        return out
    if isinstance(o, pd.Series):
        if o.dtype == object:
            return pd.Series([freeze(v) for v in o.tolist()], index=o.index.copy(), name=o.name, dtype=object)
        return o.copy(deep=True)
    if isinstance(o, np.ndarray):
        if o.dtype == object:
            out = np.empty(o.shape, dtype=object)
            flat = out.ravel()
            for i, v in enumerate(o.ravel()):
                flat[i] = freeze(v)
            return out
        return o.copy()
    if isinstance(o, dict):
        return {k: freeze(v) for k, v in o.items()}
    if isinstance(o, (list, tuple)):
        return type(o)(freeze(v) for v in o)
    if hasattr(o, "toarray") and hasattr(o, "copy"):
        return o.copy()
    return o


RTOL, ATOL = 1e-9, 1e-11


def _arr_same(a, b):
    if a.shape != b.shape:
        return False
    if a.dtype == object or b.dtype == object:
        return all(same(x, y) for x, y in zip(a.ravel(), b.ravel()))
    if _is_num(a.dtype) and _is_num(b.dtype):
        if a.dtype.kind in "fc" or b.dtype.kind in "fc":
            return bool(np.allclose(a, b, rtol=RTOL, atol=ATOL, equal_nan=True))
        return bool(np.array_equal(a, b))
    try:
        return bool(np.array_equal(a, b))
    except Exception:
        return False


def same(a, b):
    """two returned values are equal: same container type, same labels, same values (NaN == NaN, 1e-9 tolerance)"""
    if a is None or b is None:
        return a is None and b is None
    if isinstance(a, pd.DataFrame) or isinstance(b, pd.DataFrame):
        if not (isinstance(a, pd.DataFrame) and isinstance(b, pd.DataFrame)):
            return False
        if a.shape != b.shape or not a.index.equals(b.index) or list(map(str, a.columns)) != list(map(str, b.columns)):
            return False
        return all(same(a.iloc[:, j], b.iloc[:, j]) for j in range(a.shape[1]))
    if isinstance(a, pd.Series) or isinstance(b, pd.Series):
        if not (isinstance(a, pd.Series) and isinstance(b, pd.Series)):
            return False
        if len(a) != len(b) or not a.index.equals(b.index):
            return False
        return _arr_same(a.to_numpy(), b.to_numpy())
    if isinstance(a, np.ndarray) or isinstance(b, np.ndarray):
        if not (isinstance(a, np.ndarray) and isinstance(b, np.ndarray)):
            return False
        return _arr_same(a, b)
    if hasattr(a, "toarray") or hasattr(b, "toarray"):
        if not (hasattr(a, "toarray") and hasattr(b, "toarray")):
            return False
        return _arr_same(np.asarray(a.toarray()), np.asarray(b.toarray()))
    if isinstance(a, dict) or isinstance(b, dict):
        if not (isinstance(a, dict) and isinstance(b, dict)) or set(a) != set(b):
            return False
        return all(same(a[k], b[k]) for k in a)
    if isinstance(a, (list, tuple)) or isinstance(b, (list, tuple)):
        if not (isinstance(a, (list, tuple)) and isinstance(b, (list, tuple))) or len(a) != len(b):
            return False
        return all(same(x, y) for x, y in zip(a, b))
    if isinstance(a, (int, float, np.number)) and isinstance(b, (int, float, np.number)):
        return bool(np.isclose(float(a), float(b), rtol=RTOL, atol=ATOL, equal_nan=True))
    try:
        return bool(a == b)
    except Exception:
        return False


def brief(o, k=6):
    """short printable form of a value for failure details"""
    try:
        if isinstance(o, pd.DataFrame):
            cell = o.iloc[0, 0] if o.size else None
            if isinstance(cell, (pd.Series, np.ndarray)):
                return f"nested{o.shape} first cell {brief(cell, k)}"
            return f"frame{o.shape} index[{o.index[0]}..{o.index[-1]}] " + "; ".join(
                f"{c}={brief(o[c].to_numpy(), k)}" for c in list(o.columns)[:3])
        if isinstance(o, pd.Series):
            if len(o) == 0:
                return "empty series"
            return f"series(n={len(o)}, index {o.index[0]}..{o.index[-1]}) {brief(o.to_numpy(), k)}"
        if isinstance(o, np.ndarray):
            flat = o.ravel()
            if o.dtype == object:
                return f"array{o.shape} of objects, first {brief(flat[0], k) if flat.size else ''}"
            if o.dtype.kind in "fc":
                vals = [round(float(v), 6) for v in flat[:k]]
            else:
                vals = flat[:k].tolist()
            return f"{o.dtype}{list(o.shape)} {vals}" + ("..." if flat.size > k else "")
        if isinstance(o, (list, tuple)):
            return "(" + ", ".join(brief(v, k) for v in o[:3]) + ")"
        if hasattr(o, "toarray"):
            return "sparse " + brief(np.asarray(o.toarray()), k)
        return repr(o)[:80]
    except Exception:
        return repr(o)[:80]


def diff_note(a, b):
    """where two values differ (for the detail string)"""
    try:
        if isinstance(a, pd.Series) and isinstance(b, pd.Series):
            if len(a) != len(b) or not a.index.equals(b.index):
                return f"index {list(a.index[:3])}..{list(a.index[-1:])} (n={len(a)}) vs {list(b.index[:3])}..{list(b.index[-1:])} (n={len(b)})"
            if a.dtype != object and b.dtype != object:
                av, bv = a.to_numpy(dtype=float), b.to_numpy(dtype=float)
                bad = ~(np.isclose(av, bv, rtol=RTOL, atol=ATOL, equal_nan=True))
                pos = np.flatnonzero(bad)[:4]
                return f"differs at labels {[a.index[i] for i in pos]}: {av[pos].tolist()} vs {bv[pos].tolist()}"
        if isinstance(a, np.ndarray) and isinstance(b, np.ndarray) and a.shape == b.shape and a.dtype != object:
            if _is_num(a.dtype) and _is_num(b.dtype):
                bad = ~np.isclose(a.astype(float), b.astype(float), rtol=RTOL, atol=ATOL, equal_nan=True)
            else:
                bad = a != b
            pos = np.argwhere(bad)[:4]
            return f"differs at positions {[tuple(int(x) for x in p) for p in pos]}: " \
                   f"{[a[tuple(p)].tolist() for p in pos]} vs {[b[tuple(p)].tolist() for p in pos]}"
    except Exception:
        pass
    return f"{brief(a)} vs {brief(b)}"


def changed_note(before, after_obj_dict, snaps):
    """which caller object changed, in words"""
    out = []
    for k, s in snaps.items():
        if snap(after_obj_dict[k]) != s:
            out.append(f"'{k}' is now {brief(after_obj_dict[k], 10)} (was {brief(before[k], 10)})")
    return "; ".join(out)


def euler_sequence(k, start=0):
    """closed walk over the complete directed graph with loops on k nodes: every ordered pair (i, j), i == j
    included, occurs as neighbours exactly once (length k*k + 1)"""
    nxt = {i: [(i + d) % k for d in range(k)] for i in range(k)}       # loop first, then the others
    stack, out = [start], []
    while stack:
        v = stack[-1]
        if nxt[v]:
            stack.append(nxt[v].pop(0))
        else:
            out.append(stack.pop())
    return out[::-1]


def scramble_global_rng(token):
    np.random.seed((token * 7919 + 13) % (2 ** 31 - 1))
    random.seed(token * 104729 + 7)


# ====================================================================================================== data
def make_index(kind, start, n):
    if kind == "range":
        return pd.RangeIndex(start, start + n)
    if kind == "int64":
        return pd.Index(np.arange(start, start + n, dtype="int64"))
    if kind == "period":
        return pd.period_range(pd.Period("2001-01", freq="M") + int(start), periods=n, freq="M")
    if kind == "datetime":
        return pd.date_range(pd.Timestamp("2001-01-01") + pd.Timedelta(days=int(start)), periods=n, freq="D")
    raise ValueError(kind)


def series_values(n, seed, sp=4, positive=True):
    rng = np.random.RandomState(1000 + seed)
    pattern = rng.uniform(0.5, 3.0, sp)
    v = 10.0 + 0.3 * np.arange(n) + np.resize(pattern, n) + rng.normal(0, 0.4, n)
    if not positive:
        v = v - v.mean()
    return np.round(v, 4)


def make_series(n, seed=0, kind="range", start=0, sp=4, positive=True, nan_at=(), spikes=(), integer=False):
    v = series_values(n, seed, sp, positive)
    for p, val in spikes:
        if p < n:
            v[p] = val
    if integer:
        v = np.round(v).astype("int64")
        return pd.Series(v, index=make_index(kind, start, n))
    for p in nan_at:
        if p < n:
            v[p] = np.nan
    return pd.Series(v, index=make_index(kind, start, n))


def make_frame(n, seed=0, kind="range", start=0, ncols=2, **kw):
    cols = {}
    for c in range(ncols):
        kw_c = dict(kw)
        if "nan_at" in kw_c:
            kw_c["nan_at"] = tuple((p + 2 * c) % n for p in kw_c["nan_at"])
        if "spikes" in kw_c:
            kw_c["spikes"] = tuple(((p + 3 * c) % n, v) for p, v in kw_c["spikes"])
        cols["c%d" % c] = make_series(n, seed + 17 * c, kind, start, **kw_c).to_numpy()
    return pd.DataFrame(cols, index=make_index(kind, start, n))


def panel_values(n_inst, n_cols, m, seed, noise=0.3, n_classes=2):
    """n_inst x n_cols x m array and labels: class-dependent wave forms plus noise"""
    rng = np.random.RandomState(2000 + seed)
    t = np.arange(m)
    labels = np.array(["a", "b", "c"][:n_classes] * (n_inst // n_classes + 1))[:n_inst]
    X = np.zeros((n_inst, n_cols, m))
    for i in range(n_inst):
        for c in range(n_cols):
            if labels[i] == "a":
                base = np.sin(t / (2.0 + c))
            elif labels[i] == "b":
                base = np.sign(np.sin(t / (3.0 + c)))
            else:
                base = np.cos(t / 1.5) * (t / m)
            X[i, c] = base + noise * rng.randn(m)
    return np.round(X, 5), labels


def to_nested(X3, start=0):
    n, c, m = X3.shape
    return pd.DataFrame({"dim_%d" % j: [pd.Series(X3[i, j].copy(), index=pd.RangeIndex(0, m)) for i in range(n)]
                         for j in range(c)}, index=pd.RangeIndex(start, start + n))


def as_container(X3, container, start=0):
    return to_nested(X3, start) if container == "nested" else X3.copy()


# =================================================================================================== protocol
class Call:
    """one apply-type call: fn(fitted estimator, dict of caller objects) -> returned value"""

    def __init__(self, label, fn):
        self.label, self.fn = label, fn


class Subject:
    """one estimator configuration + data + the apply-type calls exercised on it"""

    def __init__(self, name, make, data, fit, calls, n_jobs=(), other_fit=None, reproducible=True, fresh_refs=True,
                 kf_data=None, kf_raise=None):
        self.name = name
        self.make = make              # make(**overrides) -> new unfitted estimator with the same parameters every time
        self.data = data              # data() -> dict name -> new equal caller objects every time
        self.fit = fit                # fit(est, d) -> fitted est (may include update steps)
        self.calls = calls
        self.n_jobs = tuple(n_jobs)   # values of the n_jobs parameter to compare (empty: no such parameter)
        self.other_fit = other_fit    # other_fit(est, d): fit on different data first (then set_params + refit)
        self.reproducible = reproducible    # False: random_state=None -> only the purity clauses apply
        self.fresh_refs = fresh_refs  # False (expensive fit): all references from one estimator, in call order
        # kf_data(before_dict, after_dict, changed_names) -> "KF:..." key when the modification of the caller's data
        # is exactly a triaged defect of the unchanged tree, else None (-> reported under the normal key)
        self.kf_data = kf_data
        self.kf_raise = kf_raise      # kf_raise(overrides, exception) -> "KF:..." key or None, same idea for a raising fit


def _quiet(fn):
    with warnings.catch_warnings():
        warnings.simplefilter("ignore")
        return fn()


def _err(e):
    return f"{type(e).__name__}: {str(e)[:200]}"


class Runner:
    def __init__(self, R, seed):
        self.R = R
        self.seed = seed
        self.token = seed * 1000 + 1

    # -- one fitted estimator on a fresh copy of the data; checks that fit left the data alone
    def fitted(self, S, how="fit", raise_key=K_RAISE, **over):
        d = S.data()
        before = S.data()
        snaps = {k: snap(v) for k, v in d.items()}
        self.token += 1
        scramble_global_rng(self.token)
        try:
            est = S.make(**over)
            if how == "refit":
                _quiet(lambda: S.other_fit(est, d))
                est.set_params(**est.get_params(deep=False))
            est = _quiet(lambda: S.fit(est, d))
        except Exception as e:
            key = raise_key
            if S.kf_raise is not None:
                key = S.kf_raise(over, e) or raise_key
            self.R.check(key, False, f"{S.name}: {how}({over or ''}) raised {_err(e)}")
            return None, None, None
        ok = all(snap(d[k]) == s for k, s in snaps.items())
        key = K_FITDATA
        if not ok and S.kf_data is not None:
            key = S.kf_data(before, d, [k for k, s in snaps.items() if snap(d[k]) != s]) or K_FITDATA
        self.R.check(key, ok, f"{S.name}: after {how}({over or ''}) the caller's data changed: "
                     + (changed_note(before, d, snaps) if not ok else ""))
        if not ok:
            d = S.data()
            snaps = {k: snap(v) for k, v in d.items()}
        return est, d, snaps

    def apply(self, S, est, d, snaps, call, history=""):
        """run one apply-type call; check the caller's data afterwards; returns (ok, frozen result)"""
        try:
            r = _quiet(lambda: call.fn(est, d))
        except Exception as e:
            return False, _err(e)
        r = freeze(r)
        ok = all(snap(d[k]) == s for k, s in snaps.items())
        if not ok:
            before = S.data()
            note = changed_note(before, d, snaps)
            key = K_APPDATA
            if S.kf_data is not None:
                key = S.kf_data(before, d, [k for k, s in snaps.items() if snap(d[k]) != s]) or K_APPDATA
            self.R.check(key, False, f"{S.name}: {call.label}{history} modified the caller's data: {note}")
            # restore so that the following calls see the original input again
            fresh = S.data()
            for k in list(d):
                d[k] = fresh[k]
                snaps[k] = snap(fresh[k])
        else:
            self.R.check(K_APPDATA, True, "")
        return True, r

    def run(self, S, tier, pairs=False):
        R = self.R
        calls = S.calls
        k = len(calls)
        # ---------------------------------------------------------------- references
        refs = [None] * k
        if S.fresh_refs and S.reproducible:
            for i, c in enumerate(calls):
                est, d, snaps = self.fitted(S)
                if est is None:
                    return
                ok, r = self.apply(S, est, d, snaps, c, " (first call on a fresh estimator)")
                if not ok:
                    R.check(K_RAISE, False, f"{S.name}: {c.label} on a freshly fitted estimator raised {r}")
                    return
                refs[i] = r
        else:
            est, d, snaps = self.fitted(S)
            if est is None:
                return
            for i, c in enumerate(calls):
                ok, r = self.apply(S, est, d, snaps, c, f" (after {[x.label for x in calls[:i]]})")
                if not ok:
                    R.check(K_RAISE, False, f"{S.name}: {c.label} raised {r}")
                    return
                refs[i] = r
            if not S.reproducible:
                # random_state=None: only the purity clauses apply; continue on the same estimator
                self.sequence(S, est, d, snaps, refs, euler_sequence(k, k - 1), first_key=K_INTER,
                              pre=[c.label for c in calls])
                self.pickled_now(S, est, d, snaps, "after the call sequence")
                return
        # ---------------------------------------------------------------- second, equal estimator: call sequence
        est, d, snaps = self.fitted(S)
        if est is None:
            return
        self.pickled_vs_refs(S, est, d, snaps, refs)
        seq = euler_sequence(k, (self.seed + len(S.name)) % k if S.fresh_refs else k - 1)
        rng = random.Random(self.seed * 31 + len(S.name))
        seq = seq + [rng.randrange(k) for _ in range(k if tier == "quick" else 2 * k)]
        self.sequence(S, est, d, snaps, refs, seq)
        self.pickled_now(S, est, d, snaps, "after the call sequence")
        # ---------------------------------------------------------------- thorough: every ordered pair on fresh fits
        if pairs and S.fresh_refs and k > 1:
            some = sorted({(self.seed + len(S.name) + t) % k for t in range(4)})     # at most 4 of the calls
            for i in some:
                for j in some:
                    if i == j:
                        continue
                    e2, d2, s2 = self.fitted(S)
                    if e2 is None:
                        return
                    self.sequence(S, e2, d2, s2, refs, [i, j, i])
        # ---------------------------------------------------------------- refit after other data
        if S.other_fit is not None:
            e3, d3, s3 = self.fitted(S, how="refit")
            if e3 is not None:
                for i, c in enumerate(calls):
                    ok, r = self.apply(S, e3, d3, s3, c)
                    good = ok and same(r, refs[i])
                    R.check(K_REFIT, good, f"{S.name}: fitted on other data, set_params(own params), refitted on the "
                            f"data; {c.label} " + (f"raised {r}" if not ok else f"returned {brief(r)}; a fresh equal "
                            f"estimator returned {brief(refs[i])} [{diff_note(r, refs[i])}]") if not good else "")
        # ---------------------------------------------------------------- n_jobs
        for nj in S.n_jobs:
            e4, d4, s4 = self.fitted(S, raise_key=K_NJOBS, n_jobs=nj)
            if e4 is None:
                continue
            for i, c in enumerate(calls):
                ok, r = self.apply(S, e4, d4, s4, c)
                good = ok and same(r, refs[i])
                R.check(K_NJOBS, good, f"{S.name}: n_jobs={nj} (threading backend): {c.label} "
                        + (f"raised {r}" if not ok else f"returned {brief(r)}; with the default n_jobs it returned "
                           f"{brief(refs[i])} [{diff_note(r, refs[i])}]") if not good else "")

    def sequence(self, S, est, d, snaps, refs, seq, first_key=K_EQUAL, pre=()):
        R = self.R
        hist = list(pre)
        for idx in seq:
            c = S.calls[idx]
            h = f" after [{', '.join(hist[-4:])}]" if hist else ""
            ok, r = self.apply(S, est, d, snaps, c, h)
            if not hist:
                key = first_key
            elif hist[-1] == c.label:
                key = K_REPEAT
            else:
                key = K_INTER
            good = ok and same(r, refs[idx])
            if good:
                R.check(key, True, "")
            else:
                what = {K_EQUAL: "first call on a second estimator with equal parameters fitted on equal data",
                        K_REPEAT: "the same call made directly before", K_INTER: "other apply-type calls made before"}[key]
                R.check(key, False, f"{S.name}: {c.label}{h} ({what}) "
                        + (f"raised {r}" if not ok else f"returned {brief(r)}; the reference (only call on a fresh "
                           f"equal estimator) is {brief(refs[idx])} [{diff_note(r, refs[idx])}]"))
            hist.append(c.label)

    def pickled_vs_refs(self, S, est, d, snaps, refs):
        """copy taken right after fit: every call, each on its own restored copy, must return the reference"""
        try:
            blob = pickle.dumps(est)
        except Exception as e:
            self.R.check(K_PICKLE, False, f"{S.name}: pickling the fitted estimator raised {_err(e)}")
            return
        for i, c in enumerate(S.calls):
            try:
                p = pickle.loads(blob)
            except Exception as e:
                self.R.check(K_PICKLE, False, f"{S.name}: restoring the pickled fitted estimator raised {_err(e)}")
                return
            ok, r = self.apply(S, p, d, snaps, c)
            good = ok and same(r, refs[i])
            self.R.check(K_PICKLE, good, f"{S.name}: copy pickled right after fit: {c.label} "
                         + (f"raised {r}" if not ok else f"returned {brief(r)}; a fresh equal estimator returned "
                            f"{brief(refs[i])} [{diff_note(r, refs[i])}]") if not good else "")

    def pickled_now(self, S, est, d, snaps, when):
        """copy of a used estimator: the copy and the original, asked the same thing now, agree"""
        for i, c in enumerate(S.calls):
            try:
                p = pickle.loads(pickle.dumps(est))
            except Exception as e:
                self.R.check(K_PICKLE, False, f"{S.name}: pickle round trip ({when}) raised {_err(e)}")
                return
            ok, r = self.apply(S, p, d, snaps, c)
            ok2, r2 = self.apply(S, est, d, snaps, c)
            good = ok and ok2 and same(r, r2)
            self.R.check(K_PICKLE, good, f"{S.name}: copy pickled {when}: {c.label} "
                         + (f"raised {r}" if not ok else f"returned {brief(r)}; the estimator it was copied from "
                            f"{'raised ' + str(r2) if not ok2 else 'returned ' + brief(r2)}") if not good else "")


# ================================================================================================ forecasters
class ScalarRegressor(RegressorMixin, SkBaseEstimator):
    """deterministic stub regressor (real sklearn regressors do not run with the reducers under the shim):
    least squares on the flattened window, returns python scalars for one row"""

    def __init__(self, ridge=0.1):
        self.ridge = ridge

    def fit(self, X, y):
        X = np.asarray(X, dtype=float)
        X = X.reshape(X.shape[0], -1)
        y = np.asarray(y, dtype=float)
        A = np.column_stack([np.ones(len(X)), X])
        self.coef_ = np.linalg.solve(A.T @ A + self.ridge * np.eye(A.shape[1]), A.T @ y)
        return self

    def predict(self, X):
        X = np.asarray(X, dtype=float)
        X = X.reshape(X.shape[0], -1)
        out = np.column_stack([np.ones(len(X)), X]) @ self.coef_
        if out.ndim == 1 and out.shape[0] == 1:
            return float(out[0])
        return out


def fc_data(n, kind, start, seed, n_new=3, positive=True):
    def data():
        y_all = make_series(n + n_new, seed, kind, start, positive=positive)
        d = {
            "y": y_all.iloc[:n].copy(),
            "y_new": y_all.iloc[n:].copy(),
            "y_other": make_series(n + 2, seed + 5, kind, start + 1, positive=positive),
            "fh_out": np.array([1, 2, 3]),
            "fh_gap": np.array([2, 5]),
            "fh_ins_full": np.arange(-(n - 1), 1),
            "fh_ins_short": np.array([-2, -1, 0]),
            "fh_mixed": np.arange(-3, 3),
            "fh_list": [1, 4],
        }
        return d
    return data


def fc_calls(which):
    table = {
        "out": Call("predict(fh=[1,2,3])", lambda f, d: f.predict(fh=d["fh_out"])),
        "gap": Call("predict(fh=[2,5])", lambda f, d: f.predict(fh=d["fh_gap"])),
        "list": Call("predict(fh=list [1,4])", lambda f, d: f.predict(fh=d["fh_list"])),
        "ins_full": Call("predict(fh=all in-sample steps -(n-1)..0)", lambda f, d: f.predict(fh=d["fh_ins_full"])),
        "ins_short": Call("predict(fh=[-2,-1,0])", lambda f, d: f.predict(fh=d["fh_ins_short"])),
        "mixed": Call("predict(fh=[-3..2])", lambda f, d: f.predict(fh=d["fh_mixed"])),
        "int": Call("predict(fh=[1,2,3], return_pred_int=True)",
                    lambda f, d: f.predict(fh=d["fh_out"], return_pred_int=True)),
        "int80": Call("predict(fh=[2,5], return_pred_int=True, alpha=0.2)",
                      lambda f, d: f.predict(fh=d["fh_gap"], return_pred_int=True, alpha=0.2)),
        "stored": Call("predict() with the horizon given to fit", lambda f, d: f.predict()),
        "stored_same": Call("predict(fh=the horizon given to fit)", lambda f, d: f.predict(fh=d["fh_out"])),
    }
    return [table[w] for w in which]


FIT_PLAIN = ("fit(y)", lambda f, d: f.fit(d["y"]))
FIT_FH = ("fit(y, fh=[1,2,3])", lambda f, d: f.fit(d["y"], fh=d["fh_out"]))
FIT_UPD0 = ("fit(y); update(y_new, update_params=False)",
            lambda f, d: f.fit(d["y"]).update(d["y_new"], update_params=False))
# (update_params=True refits with the stored horizon, so one is given to fit)
FIT_UPD1 = ("fit(y, fh=[1,2,3]); update(y_new, update_params=True)",
            lambda f, d: f.fit(d["y"], fh=d["fh_out"]).update(d["y_new"], update_params=True))
FIT_FH_UPD0 = ("fit(y, fh=[1,2,3]); update(y_new, update_params=False)",
               lambda f, d: f.fit(d["y"], fh=d["fh_out"]).update(d["y_new"], update_params=False))


def fc_subject(label, make, n, kind, start, seed, fit, calls, n_jobs=(), positive=True, refit=True):
    fit_label, fit_fn = fit
    # the earlier fit on other data is given a horizon exactly when the fit under test is
    if "fh=" in fit_label:
        other = (lambda f, d: f.fit(d["y_other"], fh=d["fh_out"])) if refit else None
    else:
        other = (lambda f, d: f.fit(d["y_other"])) if refit else None
    return Subject(f"{label} [{fit_label}; n={n}, {kind} index from {start}, data seed {seed}]",
                   make, fc_data(n, kind, start, seed, positive=positive), fit_fn, calls, n_jobs=n_jobs,
                   other_fit=other)


def forecaster_subjects(tier, seed):
    from sktime.forecasting.compose import (EnsembleForecaster, MultiplexForecaster, StackingForecaster,
                                            TransformedTargetForecaster, make_reduction)
    from sktime.forecasting.exp_smoothing import ExponentialSmoothing
    from sktime.forecasting.model_selection import ForecastingGridSearchCV, SlidingWindowSplitter
    from sktime.forecasting.naive import NaiveForecaster
    from sktime.forecasting.theta import ThetaForecaster
    from sktime.forecasting.trend import PolynomialTrendForecaster
    from sktime.transformations.series.boxcox import LogTransformer
    from sktime.transformations.series.detrend import Deseasonalizer, Detrender

    thorough = tier == "thorough"
    out = []
    # training length, index kind, first label (not 0: positions and labels differ)
    layouts = [(12, "range", 3), (13, "period", 0), (12, "range", 0)]
    if thorough:
        layouts += [(15, "int64", 7), (9, "range", 5)]
    # (a period index only with the window forecasters: the other ones raise TypeError on period arithmetic under the
    # installed pandas, with or without the shim; a datetime index: "No `freq` information available")
    plain_lays = [(12, "range", 3), (13, "int64", 0)] + ([(15, "int64", 7), (9, "range", 5)] if thorough else [])
    lay16 = [(16, "range", 3), (17, "int64", 0)] + ([(21, "int64", 4)] if thorough else [])
    ALL = ["out", "gap", "ins_full", "ins_short", "mixed", "list"]
    CORE = ["out", "ins_full", "gap", "mixed"]
    NJ = (None, 1, 2, 4)
    cnt = [0]

    def lays_of(pool, k=1):
        """quick: k of the layouts, thorough: 3 * k (all when there are no more), rotating with the seed"""
        cnt[0] += 1
        k = min(len(pool), 3 * k if thorough else k)
        return [pool[(cnt[0] + seed + j) % len(pool)] for j in range(k)]

    # ---- NaiveForecaster: every strategy x window x seasonal periodicity (window not a multiple of sp included)
    naive_cfgs = []
    for strategy in ("last", "mean", "drift"):
        for wl in (None, 4, 5):
            for sp in (1, 4, 3):
                if strategy == "drift" and sp != 1:
                    continue
                if strategy == "last" and wl is not None and sp == 1:
                    continue      # window_length is not used by "last" without seasonality
                if not thorough and ((wl == 5 and strategy != "drift" and sp != 3) or (sp == 3 and wl != 5)
                                     or (strategy == "drift" and wl == 4)):
                    continue
                naive_cfgs.append(dict(strategy=strategy, window_length=wl, sp=sp))
    for ci, cfg in enumerate(naive_cfgs):
        for (n, kind, start) in lays_of(layouts):
            fits = [FIT_PLAIN, FIT_UPD0, FIT_UPD1] if (thorough or (ci + seed) % 3 == 0) else [FIT_PLAIN]
            for fit in fits:
                out.append(fc_subject(f"NaiveForecaster({cfg})", (lambda cfg=cfg, **o: NaiveForecaster(**cfg)),
                                      n, kind, start, seed + ci, fit,
                                      fc_calls(ALL if (thorough or fit is FIT_PLAIN and ci % 4 == 0) else CORE)))

    def add(label, make, calls, fits=(FIT_PLAIN,), pool=None, k=1, **kw):
        for (n, kind, start) in lays_of(pool or plain_lays, k):
            for fit in fits:
                out.append(fc_subject(label, make, n, kind, start, seed, fit, fc_calls(calls), **kw))

    some_fits = (FIT_PLAIN, FIT_UPD0, FIT_UPD1)
    for deg in (1, 2):
        for icpt in (True, False):
            add(f"PolynomialTrendForecaster(degree={deg}, with_intercept={icpt})",
                lambda deg=deg, icpt=icpt, **o: PolynomialTrendForecaster(degree=deg, with_intercept=icpt),
                ALL if deg == 1 else CORE, some_fits if (deg == 1 and icpt) else (FIT_PLAIN,))
    add("ExponentialSmoothing(trend='add')", lambda **o: ExponentialSmoothing(trend="add"),
        ["out", "gap", "ins_full", "mixed"], some_fits, lay16)
    add("ExponentialSmoothing(trend='add', seasonal='add', sp=4)",
        lambda **o: ExponentialSmoothing(trend="add", seasonal="add", sp=4), ["out", "gap", "ins_short", "mixed"],
        (FIT_PLAIN,), lay16)
    add("ThetaForecaster(sp=1)", lambda **o: ThetaForecaster(sp=1), ["out", "gap", "int", "int80", "list"],
        some_fits, lay16)
    add("ThetaForecaster(sp=4)", lambda **o: ThetaForecaster(sp=4), ["out", "gap", "int"], (FIT_PLAIN, FIT_UPD0), lay16)
    try:
        from sktime.forecasting.ets import AutoETS
    except Exception:
        AutoETS = None
    if AutoETS is not None:
        add("AutoETS(trend='add')", lambda **o: AutoETS(trend="add"),
            ["out", "gap", "ins_short", "mixed"] if thorough else ["out", "gap", "mixed"],
            (FIT_PLAIN, FIT_UPD0) if thorough else (FIT_PLAIN,), lay16)
        add("AutoETS(auto=True, sp=1)", lambda n_jobs=None, **o: AutoETS(auto=True, sp=1, n_jobs=n_jobs),
            ["out", "gap"], (FIT_PLAIN,), lay16, n_jobs=NJ if thorough else (2,), refit=thorough)

    # ---- composites
    def ens(n_jobs=None, **o):
        return EnsembleForecaster([("last", NaiveForecaster()), ("mean", NaiveForecaster("mean", window_length=4)),
                                   ("trend", PolynomialTrendForecaster(degree=1))], n_jobs=n_jobs)
    add("EnsembleForecaster([last, mean(4), trend])", ens, ["out", "gap", "list"], some_fits, n_jobs=NJ)

    def pipe(**o):
        return TransformedTargetForecaster([("log", LogTransformer()), ("deseason", Deseasonalizer(sp=4)),
                                            ("detrend", Detrender(PolynomialTrendForecaster(degree=1))),
                                            ("naive", NaiveForecaster("mean", window_length=4))])
    pipe_calls = fc_calls(["out", "gap", "list"]) + [
        Call("transform(y)", lambda f, d: f.transform(d["y"])),
        Call("inverse_transform(y_new)", lambda f, d: f.inverse_transform(d["y_new"])),
    ]
    for (n, kind, start) in lays_of(plain_lays):
        for fit in some_fits:
            out.append(fc_subject("TransformedTargetForecaster([log, deseason(4), detrend, mean(4)])", pipe, n, kind,
                                  start, seed, fit, pipe_calls))

    def mux(**o):
        return MultiplexForecaster([("last", NaiveForecaster()), ("drift", NaiveForecaster("drift"))],
                                   selected_forecaster="drift")
    add("MultiplexForecaster([last, drift], selected='drift')", mux, ["out", "gap", "list"], some_fits)

    def stack(n_jobs=None, **o):
        return StackingForecaster([("last", NaiveForecaster()), ("trend", PolynomialTrendForecaster(degree=1))],
                                  final_regressor=ScalarRegressor(), n_jobs=n_jobs)
    stored = fc_calls(["stored", "stored_same"])
    for (n, kind, start) in lays_of(plain_lays):
        for fit in (FIT_FH, FIT_FH_UPD0):
            out.append(fc_subject("StackingForecaster([last, trend], stub regressor)", stack, n + 8, kind, start, seed,
                                  fit, stored, n_jobs=NJ))

    # ---- reduction (stub regressor returning python scalars)
    for strategy in ("recursive", "direct", "multioutput", "dirrec"):
        for scitype in ("tabular-regressor", "time-series-regressor"):
            if not thorough and scitype == "time-series-regressor" and strategy in ("multioutput", "dirrec"):
                continue

            def red(strategy=strategy, scitype=scitype, **o):
                return make_reduction(ScalarRegressor(), scitype=scitype, strategy=strategy, window_length=3)
            for (n, kind, start) in lays_of(layouts[:3] if strategy == "recursive" else plain_lays):
                if strategy == "recursive":
                    for fit in (FIT_PLAIN, FIT_UPD0):
                        out.append(fc_subject(f"make_reduction(stub, {scitype}, {strategy}, window_length=3)", red,
                                              n + 4, kind, start, seed, fit,
                                              fc_calls(["out", "gap", "list"])))      # (no in-sample predictions)
                else:
                    for fit in (FIT_FH, FIT_FH_UPD0):
                        out.append(fc_subject(f"make_reduction(stub, {scitype}, {strategy}, window_length=3)", red,
                                              n + 4, kind, start, seed, fit, stored))

    # ---- tuning
    def grid(n_jobs=None, **o):
        return ForecastingGridSearchCV(NaiveForecaster("mean"), SlidingWindowSplitter(fh=[1, 2], window_length=6),
                                       {"window_length": [2, 3, 5], "sp": [1, 2]}, n_jobs=n_jobs)
    for (n, kind, start) in lays_of(lay16[:2] + [(17, "period", 0)]):
        out.append(fc_subject("ForecastingGridSearchCV(Naive mean, window_length x sp)", grid, n, kind, start,
                              seed, FIT_PLAIN, fc_calls(["out", "gap", "list"]), n_jobs=NJ if thorough else (2,),
                              refit=thorough))
    return out


def forecaster_protocol_checks(R, tier, seed):
    """two call sequences outside the generic protocol: (a) the horizon stored by fit survives a predict with another
    horizon (a triaged defect of the unchanged tree: narrow KF key), (b) a second fit without any horizon"""
    from sktime.forecasting.compose import EnsembleForecaster
    from sktime.forecasting.exp_smoothing import ExponentialSmoothing
    from sktime.forecasting.naive import NaiveForecaster
    from sktime.forecasting.theta import ThetaForecaster
    from sktime.forecasting.trend import PolynomialTrendForecaster
    makers = [
        ("NaiveForecaster('drift')", lambda: NaiveForecaster("drift")),
        ("NaiveForecaster('mean', window_length=4)", lambda: NaiveForecaster("mean", window_length=4)),
        ("PolynomialTrendForecaster()", lambda: PolynomialTrendForecaster()),
        ("ExponentialSmoothing(trend='add')", lambda: ExponentialSmoothing(trend="add")),
        ("ThetaForecaster()", lambda: ThetaForecaster()),
        ("EnsembleForecaster([last, trend])",
         lambda: EnsembleForecaster([("a", NaiveForecaster()), ("b", PolynomialTrendForecaster())])),
    ]
    lays = [(14, "range", 3), (16, "int64", 0)] + ([(18, "range", 9)] if tier == "thorough" else [])
    for name, mk in makers:
        for (n, kind, start) in lays:
            data = fc_data(n, kind, start, seed + 2)
            desc = f"{name} [n={n}, {kind} index from {start}, data seed {seed + 2}]"
            # (a) predict() with the horizon of fit, before and after a predict with another horizon
            try:
                d = data()
                ref = _quiet(lambda: mk().fit(d["y"], fh=d["fh_out"]).predict())
                d = data()
                f = _quiet(lambda: mk().fit(d["y"], fh=d["fh_out"]))
                a = _quiet(lambda: f.predict())
                b = _quiet(lambda: f.predict(fh=d["fh_gap"]))
                c = _quiet(lambda: f.predict())
            except Exception as e:
                R.check(K_RAISE, False, f"{desc}: fit(y, fh=[1,2,3]); predict(); predict(fh=[2,5]); predict() raised {_err(e)}")
                continue
            R.check(K_EQUAL, same(a, ref), f"{desc}: fit(y, fh=[1,2,3]).predict() returned {brief(a)} and, on a second "
                    f"equal estimator, {brief(ref)}")
            ok = same(c, a)
            key = K_INTER
            if not ok and same(c, b):
                key = "KF:predict-without-fh-returns-horizon-of-previous-predict"
            R.check(key, ok, f"{desc}: fit(y, fh=[1,2,3]); predict() returned {brief(a)}; then predict(fh=[2,5]); then "
                    f"predict() returned {brief(c)} [{diff_note(c, a)}]")
            # (b) fitted without a horizon on other data, set_params with its own parameters, fitted again
            d = data()
            ref = _quiet(lambda: mk().fit(d["y"]).predict(fh=d["fh_out"]))
            f = mk()
            try:
                _quiet(lambda: f.fit(d["y_other"]))
                f.set_params(**f.get_params(deep=False))
                _quiet(lambda: f.fit(d["y"]))
                r = _quiet(lambda: f.predict(fh=d["fh_out"]))
            except Exception as e:
                R.check(K_REFIT, False,
                        f"{desc}: fit(y_other); set_params(own params); fit(y) (no horizon anywhere) raised {_err(e)}")
                continue
            R.check(K_REFIT, same(r, ref), f"{desc}: fit(y_other); set_params(own params); fit(y); predict(fh=[1,2,3]) "
                    f"returned {brief(r)}; a fresh equal estimator returned {brief(ref)}")


# ========================================================================================= series transformers
def st_data(n, kind, start, seed, container, positive=True, nan_at=(), spikes=(), integer=False, n_new=12):
    """Z: training series, Z_later: the stretch right after it, Z_other: unrelated series of another length,
    Zt: values handed to inverse_transform"""
    def build(length, sd, st, **kw):
        if container == "series":
            return make_series(length, sd, kind, st, **kw)
        if container == "frame":
            return make_frame(length, sd, kind, st, 2, **kw)
        if container == "frame1":
            return make_frame(length, sd, kind, st, 1, **kw)
        raise ValueError(container)

    def data():
        kw = dict(positive=positive, nan_at=nan_at, spikes=spikes, integer=integer)
        full = build(n + n_new, seed, start, **kw)
        other = build(n + 3, seed + 9, start + 2, **kw)
        zt = build(n, seed + 4, start, positive=positive)
        zt = zt / 7.0 if positive else zt * 0.5
        return {"Z": full.iloc[:n].copy(), "Z_later": full.iloc[n:].copy(), "Z_other": other, "Zt": zt}
    return data


def st_calls(inverse, later=True, other=True):
    calls = [Call("transform(Z) on the training series", lambda t, d: t.transform(d["Z"]))]
    if other:
        calls.append(Call("transform(Z_other)", lambda t, d: t.transform(d["Z_other"])))
    if later:
        calls.append(Call("transform(Z_later)", lambda t, d: t.transform(d["Z_later"])))
    if inverse:
        calls.append(Call("inverse_transform(Zt)", lambda t, d: t.inverse_transform(d["Zt"])))
        if later:
            calls.append(Call("inverse_transform(Z_later)", lambda t, d: t.inverse_transform(d["Z_later"])))
    return calls


ST_FIT = ("fit(Z)", lambda t, d: t.fit(d["Z"]))
ST_FIT_TRANSFORM = ("fit_transform(Z)", lambda t, d: (t.fit_transform(d["Z"]), t)[1])
ST_FIT_UPDATE = ("fit(Z); update(Z_later)", lambda t, d: t.fit(d["Z"]).update(d["Z_later"]))
# (Detrender.update with update_params=True refits with a horizon that is not set before the first transform)
ST_FIT_UPDATE0 = ("fit(Z); update(Z_later, update_params=False)",
                  lambda t, d: t.fit(d["Z"]).update(d["Z_later"], update_params=False))


def st_subject(label, make, n, kind, start, seed, container, calls, fit=ST_FIT, kf_data=None, **kw):
    return Subject(f"{label} [{fit[0]}; {container}, n={n}, {kind} index from {start}, data seed {seed}]",
                   make, st_data(n, kind, start, seed, container, **kw), fit[1], calls,
                   other_fit=lambda t, d: t.fit(d["Z_other"]), kf_data=kf_data)


def series_transformer_subjects(tier, seed):
    from sklearn.preprocessing import MinMaxScaler, StandardScaler
    from sktime.forecasting.naive import NaiveForecaster
    from sktime.forecasting.trend import PolynomialTrendForecaster
    from sktime.transformations.series.acf import AutoCorrelationTransformer, PartialAutoCorrelationTransformer
    from sktime.transformations.series.adapt import TabularToSeriesAdaptor
    from sktime.transformations.series.boxcox import BoxCoxTransformer, LogTransformer
    from sktime.transformations.series.compose import OptionalPassthrough
    from sktime.transformations.series.cos import CosineTransformer
    from sktime.transformations.series.detrend import ConditionalDeseasonalizer, Deseasonalizer, Detrender
    from sktime.transformations.series.impute import Imputer
    from sktime.transformations.series.outlier_detection import HampelFilter
    from sktime.transformations.series.summarize import MeanTransformer

    thorough = tier == "thorough"
    out = []
    lays = [(14, "range", 3), (13, "period", 0), (15, "int64", 0)]
    if thorough:
        lays += [(17, "datetime", 2), (12, "range", 0), (20, "int64", 11)]

    def pick(i, k=1, tk=3):
        """quick: k of the layouts, thorough: tk * k of the six, rotating with the configuration and the seed"""
        k = min(len(lays), tk * k if thorough else k)
        return [lays[(i + seed + j) % len(lays)] for j in range(k)]

    # ---- HampelFilter: spikes (flagged), NaN, float / int, Series / DataFrame
    spikes = ((2, 250.0), (7, -180.0), (11, 90.0))
    i = 0
    for wl in (3, 4, 7, 10):
        for n_sigma in (3, 1.5):
            for rb in (False, True):
                for container in ("series", "frame"):
                    for integer in (False, True):
                        for nan_at in ((), (5,)):
                            if integer and nan_at:
                                continue
                            if not thorough:
                                special = (n_sigma == 1.5) + rb + integer + bool(nan_at)
                                # quick: the plain filter for three windows; one option at a time for window 7
                                if wl == 4 or special > 1 or (special == 1 and wl != 7):
                                    continue
                            i += 1
                            for (n, kind, start) in pick(i, tk=2):
                                out.append(st_subject(
                                    f"HampelFilter(window_length={wl}, n_sigma={n_sigma}, return_bool={rb}) on "
                                    f"{'int64' if integer else 'float'} data with spikes{' and NaN' if nan_at else ''}",
                                    lambda wl=wl, n_sigma=n_sigma, rb=rb, **o: HampelFilter(wl, n_sigma, return_bool=rb),
                                    max(n, wl + 4), kind, start, seed + i, container, st_calls(False),
                                    spikes=spikes, nan_at=nan_at, integer=integer,
                                    fit=ST_FIT_TRANSFORM if i % 4 == 0 else ST_FIT))

    # ---- Imputer: every method, NaN in the middle and at both ends
    methods = ["drift", "linear", "nearest", "constant", "mean", "median", "backfill", "bfill", "pad", "ffill",
               "random", "forecaster"]
    i = 0
    for mi, method in enumerate(methods):
        for ci, container in enumerate(("series", "frame")):
            for ni, nan_at in enumerate(((4, 5, 9), (0, 6, -1))):
                if not thorough and method != "random" and (mi + ci + ni + seed) % 2:
                    continue
                for rs in ((0, 1, 7) if method == "random" else (None,)):
                    if not thorough and rs not in (None, seed % 2):
                        continue
                    i += 1
                    kw = dict(method=method)
                    if method == "constant":
                        kw["value"] = 1.5
                    if method == "random":
                        kw["random_state"] = rs

                    def mk(kw=kw, method=method, **o):
                        k2 = dict(kw)
                        if method == "forecaster":
                            k2["forecaster"] = NaiveForecaster("drift")
                        return Imputer(**k2)
                    for (n, kind, start) in pick(i):
                        na = tuple(p % n for p in nan_at)
                        if method in ("drift", "forecaster") and kind in ("period", "datetime"):
                            kind = "range"      # (the forecasters inside raise on period / datetime arithmetic here)
                        out.append(st_subject(f"Imputer({kw}{', forecaster=Naive(drift)' if method == 'forecaster' else ''})"
                                              f" on data with NaN at positions {na}", mk, n, kind, start, seed + i,
                                              container, st_calls(False, other=thorough or method == "random"),
                                              nan_at=na, fit=ST_FIT_TRANSFORM if i % 3 == 0 else ST_FIT))
    # placeholder for missing values other than NaN
    for container in ("series", "frame"):
        for (n, kind, start) in pick(1):
            out.append(st_subject("Imputer(method='mean', missing_values=90.0) on data holding the placeholder",
                                  lambda **o: Imputer(method="mean", missing_values=90.0), n, kind, start, seed,
                                  container, st_calls(False), spikes=((3, 90.0), (8, 90.0))))

    # ---- invertible transformers (univariate)
    def uni(label, make, inverse=True, fits=(ST_FIT,), positive=True, containers=("series",), later=True, k=1,
            no_period=False, no_datetime=False, n_min=0):
        for ci, container in enumerate(containers):
            for fi, fit in enumerate(fits):
                for (n, kind, start) in pick(len(out) + fi, k):
                    if (no_period and kind in ("period", "datetime")) or (no_datetime and kind == "datetime"):
                        kind = "int64"      # (forecasters inside a transformer: no period / datetime arithmetic here)
                    out.append(st_subject(label, make, max(n, n_min), kind, start, seed + fi, container,
                                          st_calls(inverse, later=later), fit=fit, positive=positive))

    for method in ("mle", "pearsonr"):
        uni(f"BoxCoxTransformer(method='{method}')", lambda method=method, **o: BoxCoxTransformer(method=method),
            fits=(ST_FIT, ST_FIT_TRANSFORM))
    uni("BoxCoxTransformer(bounds=(0, 1))", lambda **o: BoxCoxTransformer(bounds=(0, 1)))
    uni("LogTransformer()", lambda **o: LogTransformer(), containers=("series", "frame"))
    uni("CosineTransformer()", lambda **o: CosineTransformer(), inverse=False, positive=False,
        containers=("series", "frame"))
    uni("MeanTransformer()", lambda **o: MeanTransformer(), inverse=False, containers=("series", "frame"))
    for sp, model in ((4, "additive"), (4, "multiplicative"), (3, "additive"), (5, "multiplicative")):
        uni(f"Deseasonalizer(sp={sp}, model='{model}')", lambda sp=sp, model=model, **o: Deseasonalizer(sp, model),
            fits=(ST_FIT, ST_FIT_UPDATE, ST_FIT_TRANSFORM), n_min=2 * sp + 1)
    uni("ConditionalDeseasonalizer(sp=4)", lambda **o: ConditionalDeseasonalizer(sp=4), fits=(ST_FIT, ST_FIT_UPDATE))
    uni("ConditionalDeseasonalizer(sp=4, seasonality_test=always)",
        lambda **o: ConditionalDeseasonalizer(seasonality_test=_always_seasonal, sp=4), fits=(ST_FIT,))
    uni("Detrender()", lambda **o: Detrender(), fits=(ST_FIT, ST_FIT_UPDATE0, ST_FIT_TRANSFORM), no_period=True)
    uni("Detrender(PolynomialTrendForecaster(degree=2))",
        lambda **o: Detrender(PolynomialTrendForecaster(degree=2)), fits=(ST_FIT, ST_FIT_UPDATE0), no_period=True)
    uni("Detrender(NaiveForecaster('mean', window_length=3))",
        lambda **o: Detrender(NaiveForecaster("mean", window_length=3)), fits=(ST_FIT, ST_FIT_UPDATE0), no_datetime=True)
    uni("Detrender(NaiveForecaster('last', sp=4))",
        lambda **o: Detrender(NaiveForecaster("last", sp=4)), fits=(ST_FIT,), no_datetime=True)
    uni("AutoCorrelationTransformer(n_lags=4)", lambda **o: AutoCorrelationTransformer(n_lags=4), inverse=False)
    uni("PartialAutoCorrelationTransformer(n_lags=3)", lambda **o: PartialAutoCorrelationTransformer(n_lags=3),
        inverse=False)
    uni("TabularToSeriesAdaptor(StandardScaler())", lambda **o: TabularToSeriesAdaptor(StandardScaler()),
        fits=(ST_FIT, ST_FIT_TRANSFORM))
    uni("TabularToSeriesAdaptor(MinMaxScaler())", lambda **o: TabularToSeriesAdaptor(MinMaxScaler()))
    for passthrough in (False, True):
        uni(f"OptionalPassthrough(BoxCoxTransformer(), passthrough={passthrough})",
            lambda passthrough=passthrough, **o: OptionalPassthrough(BoxCoxTransformer(), passthrough=passthrough))
    return out


def _always_seasonal(y, sp=None):
    return True


# ========================================================================================== panel transformers
def panel_data(n_inst, n_cols, m, seed, container, n_test=4, noise=0.3, n_classes=2):
    def data():
        X3, y = panel_values(n_inst + n_test, n_cols, m, seed, noise, n_classes)
        Xo, yo = panel_values(n_inst + 1, n_cols, m, seed + 3, noise, n_classes)
        return {"X": as_container(X3[:n_inst], container), "y": y[:n_inst].copy(),
                "X_test": as_container(X3[n_inst:], container, start=n_inst),
                "X_other": as_container(Xo, container), "y_other": yo}
    return data


PT_FIT = ("fit(X, y)", lambda t, d: t.fit(d["X"], d["y"]))
PT_FIT_TRANSFORM = ("fit_transform(X, y)", lambda t, d: (t.fit_transform(d["X"], d["y"]), t)[1])


def pt_calls(inverse=False):
    calls = [Call("transform(X) on the training panel", lambda t, d: t.transform(d["X"])),
             Call("transform(X_test)", lambda t, d: t.transform(d["X_test"]))]
    if inverse:
        calls.append(Call("inverse_transform(transform(X_test) computed by another equal estimator)",
                          lambda t, d: t.inverse_transform(d["Xt"])))
    return calls


def pt_subject(label, make, n_inst, n_cols, m, seed, container, fit=PT_FIT, calls=None, n_jobs=(), reproducible=True,
               data=None, **kw):
    return Subject(f"{label} [{fit[0]}; {container}, {n_inst} x {n_cols} x {m}, data seed {seed}]", make,
                   data or panel_data(n_inst, n_cols, m, seed, container, **kw), fit[1], calls or pt_calls(),
                   n_jobs=n_jobs, other_fit=lambda t, d: t.fit(d["X_other"], d["y_other"]), reproducible=reproducible)


def _mean_of(x):
    return float(np.mean(x))


def panel_transformer_subjects(tier, seed):
    from sklearn.preprocessing import FunctionTransformer, StandardScaler
    from sktime.forecasting.exp_smoothing import ExponentialSmoothing
    from sktime.transformations.panel.compose import (ColumnConcatenator, SeriesToPrimitivesRowTransformer,
                                                      SeriesToSeriesRowTransformer)
    from sktime.transformations.panel.dictionary_based import PAA, SAX, SFA
    from sktime.transformations.panel.dwt import DWTTransformer
    from sktime.transformations.panel.hog1d import HOG1DTransformer
    from sktime.transformations.panel.interpolate import TSInterpolator
    from sktime.transformations.panel.matrix_profile import MatrixProfile
    from sktime.transformations.panel.padder import PaddingTransformer
    from sktime.transformations.panel.pca import PCATransformer
    from sktime.transformations.panel.reduce import Tabularizer
    from sktime.transformations.panel.segment import (IntervalSegmenter, RandomIntervalSegmenter,
                                                      SlidingWindowSegmenter)
    from sktime.transformations.panel.shapelets import ShapeletTransform
    from sktime.transformations.panel.slope import SlopeTransformer
    from sktime.transformations.panel.summarize import (DerivativeSlopeTransformer, FittedParamExtractor,
                                                        PlateauFinder, RandomIntervalFeatureExtractor)
    from sktime.transformations.panel.truncation import TruncationTransformer

    thorough = tier == "thorough"
    out = []
    containers = ("nested", "numpy3d")
    seeds = (0, 1, 7) if thorough else (seed % 2,)
    shapes = [(6, 20)] + ([(5, 13), (8, 24)] if thorough else [])

    cnt = [0]

    def add(label, make, n_cols=1, fits=(PT_FIT,), conts=containers, random=False, first_shape_only=False, **kw):
        cnt[0] += 1
        for (n_inst, m) in (shapes[:1] if first_shape_only else shapes):
            for ci, container in enumerate(conts):
                for fi, fit in enumerate(fits):
                    if not thorough and len(conts) * len(fits) > 1 and (ci + fi + cnt[0] + seed) % 2:
                        continue          # quick: containers / fit routes alternate between configurations
                    for rs in (seeds if random else (None,)):
                        lab = label if rs is None else f"{label[:-1]}{', ' if not label.endswith('()') else ''}random_state={rs})"
                        mk = make if rs is None else (lambda rs=rs, **o: make(random_state=rs, **o))
                        out.append(pt_subject(lab, mk, n_inst, n_cols, m, seed + len(out) % 5, container, fit=fit, **kw))
                    if random and not first_shape_only and (thorough or (ci + fi) == 0):
                        # random_state=None: the draw happens in fit, so only the purity clauses apply (repeat,
                        # interleave, pickle, caller's data) -- references come from the same fitted estimator
                        out.append(pt_subject(f"{label[:-1]}, random_state=None)", lambda **o: make(random_state=None, **o),
                                              n_inst, n_cols, m, seed + len(out) % 5, container, fit=fit,
                                              reproducible=False, **kw))

    both = (PT_FIT, PT_FIT_TRANSFORM)
    add("PAA(num_intervals=4)", lambda **o: PAA(num_intervals=4), fits=both)
    add("PAA(num_intervals=3) on 2 columns", lambda **o: PAA(num_intervals=3), n_cols=2)
    add("SAX(word_length=4, alphabet_size=3, window_size=8)", lambda **o: SAX(4, 3, 8), fits=both)
    # (binning_method="information-gain" does not run: sklearn rejects the float max_depth it passes)
    for kw in (dict(), dict(norm=True), dict(binning_method="equi-width"),
               dict(bigrams=True), dict(levels=2), dict(anova=True), dict(remove_repeat_words=True, save_words=True),
               dict(return_pandas_data_series=True)):
        add(f"SFA(word_length=4, alphabet_size=4, window_size=8, {kw})",
            lambda n_jobs=1, kw=kw, **o: SFA(word_length=4, alphabet_size=4, window_size=8, n_jobs=n_jobs, **kw),
            n_jobs=(1, 2, 4), fits=both if not kw else (PT_FIT,))
    add("DWTTransformer(num_levels=2)", lambda **o: DWTTransformer(num_levels=2))
    add("HOG1DTransformer()", lambda **o: HOG1DTransformer())
    add("TSInterpolator(length=9)", lambda **o: TSInterpolator(9), n_cols=2)
    add("MatrixProfile(m=5)", lambda **o: MatrixProfile(m=5))
    add("PaddingTransformer(pad_length=25)", lambda **o: PaddingTransformer(pad_length=25), fits=both)
    add("PaddingTransformer(fill_value=-1)", lambda **o: PaddingTransformer(fill_value=-1))
    add("TruncationTransformer(lower=5)", lambda **o: TruncationTransformer(lower=5))
    add("TruncationTransformer(lower=2, upper=9)", lambda **o: TruncationTransformer(lower=2, upper=9))
    add("PCATransformer(n_components=2)", lambda **o: PCATransformer(n_components=2), fits=both)
    add("Tabularizer()", lambda **o: Tabularizer(), n_cols=2)
    add("IntervalSegmenter(intervals=3)", lambda **o: IntervalSegmenter(intervals=3), fits=both)
    add("RandomIntervalSegmenter(n_intervals=3)", lambda **o: RandomIntervalSegmenter(n_intervals=3, **o), random=True)
    add("RandomIntervalSegmenter(n_intervals='sqrt', min_length=3)",
        lambda **o: RandomIntervalSegmenter(n_intervals="sqrt", min_length=3, **o), random=True, fits=both)
    add("SlidingWindowSegmenter(window_length=3)", lambda **o: SlidingWindowSegmenter(window_length=3))
    add("SlopeTransformer(num_intervals=4)", lambda **o: SlopeTransformer(num_intervals=4))
    add("DerivativeSlopeTransformer()", lambda **o: DerivativeSlopeTransformer())
    add("PlateauFinder(value=1.0)", lambda **o: PlateauFinder(value=1.0))
    add("RandomIntervalFeatureExtractor(n_intervals=3, features=[mean, std])",
        lambda **o: RandomIntervalFeatureExtractor(n_intervals=3, features=[np.mean, np.std], **o), random=True)
    from sktime.utils.slope_and_trend import _slope
    # the time series forest's own summary features (mean, std, slope) on windows that are VIEWS of a 3-d array input
    add("RandomIntervalFeatureExtractor(n_intervals=3, features=[mean, std, _slope])",
        lambda **o: RandomIntervalFeatureExtractor(n_intervals=3, features=[np.mean, np.std, _slope], **o), random=True,
        conts=("numpy3d",))
    add("ShapeletTransform(min 3, max 5, 3 per class)",
        lambda **o: ShapeletTransform(min_shapelet_length=3, max_shapelet_length=5,
                                      max_shapelets_to_store_per_class=3, **o), random=True, first_shape_only=True)
    add("FittedParamExtractor(ExponentialSmoothing(), ['initial_level'])",
        lambda n_jobs=None, **o: FittedParamExtractor(ExponentialSmoothing(), ["initial_level"], n_jobs=n_jobs),
        n_jobs=(None, 1, 2, 4) if thorough else (None, 2))
    add("ColumnConcatenator() on 2 columns", lambda **o: ColumnConcatenator(), n_cols=2)
    add("SeriesToPrimitivesRowTransformer(FunctionTransformer(mean))",
        lambda **o: SeriesToPrimitivesRowTransformer(FunctionTransformer(_mean_of), check_transformer=False))
    add("SeriesToSeriesRowTransformer(StandardScaler())",
        lambda **o: SeriesToSeriesRowTransformer(StandardScaler(), check_transformer=False))
    # (panel ColumnTransformer and FeatureUnion do not run under the installed sklearn: private API changed)
    return out


# ================================================================================== classifiers and regressors
def clf_data(n_inst, n_cols, m, seed, container, n_test=6, noise=0.3, test_noise=0.8, regression=False):
    """X, y: training panel; X_test: noisy copies of training cases (sensitive to which ensemble members were
    kept); X_new: unseen cases"""
    def data():
        X3, y = panel_values(n_inst + n_test, n_cols, m, seed, noise)
        rng = np.random.RandomState(3000 + seed)
        Xn = np.round(X3[:n_test] + test_noise * rng.randn(n_test, n_cols, m), 5)
        Xo, yo = panel_values(n_inst + 2, n_cols, m, seed + 3, noise)
        if regression:
            y = np.round(X3.mean(axis=(1, 2)) * 10 + np.arange(len(X3)) * 0.1, 4)
            yo = np.round(Xo.mean(axis=(1, 2)) * 10, 4)
        return {"X": as_container(X3[:n_inst], container), "y": y[:n_inst].copy(),
                "X_test": as_container(Xn, container), "X_new": as_container(X3[n_inst:], container, start=n_inst),
                "X_other": as_container(Xo, container), "y_other": yo}
    return data


def clf_calls(proba=True):
    calls = [Call("predict(X_test)", lambda c, d: c.predict(d["X_test"]))]
    if proba:
        calls.append(Call("predict_proba(X_test)", lambda c, d: c.predict_proba(d["X_test"])))
        calls.append(Call("predict_proba(X_new)", lambda c, d: c.predict_proba(d["X_new"])))
    else:
        calls.append(Call("predict(X_new)", lambda c, d: c.predict(d["X_new"])))
    return calls


def clf_subject(label, make, n_inst, n_cols, m, seed, container, n_jobs=(), proba=True, fresh_refs=True,
                reproducible=True, refit=True, kf_raise=None, **kw):
    return Subject(f"{label} [fit(X, y); {container}, {n_inst} x {n_cols} x {m}, data seed {seed}]", make,
                   clf_data(n_inst, n_cols, m, seed, container, **kw), lambda c, d: c.fit(d["X"], d["y"]),
                   clf_calls(proba), n_jobs=n_jobs,
                   other_fit=(lambda c, d: c.fit(d["X_other"], d["y_other"])) if refit else None,
                   fresh_refs=fresh_refs, reproducible=reproducible, kf_raise=kf_raise)


def classifier_subjects(tier, seed):
    from sktime.classification.compose import ColumnEnsembleClassifier
    from sktime.classification.dictionary_based import (BOSSEnsemble, ContractableBOSS, IndividualBOSS, IndividualTDE,
                                                        MUSE)
    thorough = tier == "thorough"
    out = []
    NJ = (None, 1, 2, 4)
    containers = ("nested", "numpy3d")
    cnt = [0]

    def add(label, make, n_inst=10, n_cols=1, m=40, n_data=1, n_jobs=(), n_jobs_quick=None, rstates=None, **kw):
        """containers alternate over the data seeds; thorough: 2 * n_data data seeds x 2 random states x all n_jobs
        values; quick: n_data data seeds, one random state, a rotating part of the n_jobs values per data seed"""
        cnt[0] += 1
        dseeds = range(seed, seed + (2 * n_data if thorough else n_data))
        for di, ds in enumerate(dseeds):
            for ci, container in enumerate(containers):
                if (ci + di + cnt[0] + seed) % 2:
                    continue
                for rs in (rstates or ((0, 5) if thorough else (seed % 3,))):
                    nj = n_jobs
                    if not thorough and n_jobs_quick is not None:
                        nj = n_jobs_quick[di % len(n_jobs_quick)]
                    out.append(clf_subject(f"{label[:-1]}, random_state={rs})",
                                           lambda rs=rs, **o: make(random_state=rs, **o),
                                           n_inst, n_cols, m, ds, container, n_jobs=nj, **kw))

    # (a fit with n_jobs > 1 costs ~1.5 s under the threading backend, with n_jobs=1 ~0.1 s)
    add("BOSSEnsemble(max_ensemble_size=5, min_window=16)",
        lambda n_jobs=1, **o: BOSSEnsemble(max_ensemble_size=5, min_window=16, n_jobs=n_jobs, **o),
        n_data=3, n_jobs=NJ, n_jobs_quick=((None, 2), (4,), (2,)))
    if thorough:
      add("BOSSEnsemble(threshold=0.8, max_ensemble_size=3, min_window=20, max_win_len_prop=0.8)",
          lambda n_jobs=1, **o: BOSSEnsemble(threshold=0.8, max_ensemble_size=3, min_window=20, max_win_len_prop=0.8,
                                             n_jobs=n_jobs, **o),
          n_inst=8, n_jobs=NJ)
    add("IndividualBOSS(window_size=16, word_length=8)",
        lambda n_jobs=1, **o: IndividualBOSS(window_size=16, word_length=8, n_jobs=n_jobs, **o), n_jobs=NJ,
        n_jobs_quick=((None, 2),))
    add("IndividualBOSS(window_size=12, word_length=6, norm=True)",
        lambda n_jobs=1, **o: IndividualBOSS(window_size=12, word_length=6, norm=True, n_jobs=n_jobs, **o), n_jobs=NJ,
        n_jobs_quick=((4,),))
    add("ContractableBOSS(n_parameter_samples=8, max_ensemble_size=3, min_window=16)",
        lambda n_jobs=1, **o: ContractableBOSS(n_parameter_samples=8, max_ensemble_size=3, min_window=16,
                                               n_jobs=n_jobs, **o),
        n_jobs=NJ, n_jobs_quick=((None, 2),))
    add("IndividualTDE(window_size=16, word_length=8)",
        lambda n_jobs=1, **o: IndividualTDE(window_size=16, word_length=8, n_jobs=n_jobs, **o), n_jobs=NJ,
        n_jobs_quick=((None, 2),))
    add("ColumnEnsembleClassifier([IndividualBOSS on column 0, IndividualBOSS on column 1])",
        lambda random_state=0, **o: ColumnEnsembleClassifier(
            [("b0", IndividualBOSS(window_size=16, word_length=8, random_state=random_state), [0]),
             ("b1", IndividualBOSS(window_size=12, word_length=6, random_state=random_state), [1])]), n_cols=2)
    if thorough:
        # (~2.5 s per fit)
        add("MUSE(window_inc=8)", lambda **o: MUSE(window_inc=8, **o), n_cols=2, rstates=(0,), fresh_refs=False,
            refit=False)
    return out


# ======================================================================================================= entry
BOUND = (
    "Small-scope protocol on the real estimators: for each configuration references from fresh equal estimators (one "
    "call each), then on another equal estimator a call sequence containing every ordered pair of apply-type calls as "
    "neighbours (+ a seeded random walk; thorough: for a quarter of the configurations also ordered pairs of calls on "
    "their own fresh fits), bit-exact snapshots "
    "of all caller objects around every fit and call, pickle round trips (right after fit and after the sequence), "
    "refit after other data + set_params, n_jobs in {None,1,2,4} under joblib's threading backend, global RNGs "
    "re-seeded before every fit. Forecasters (series of 9..21 points; RangeIndex from 0/3/5, int64, period; "
    "fit / fit+update(update_params False, True); horizons [1,2,3], gapped [2,5], list, all in-sample, [-2,-1,0], "
    "mixed [-3..2], prediction intervals): NaiveForecaster last/mean/drift x window_length None/4/5 x sp 1/3/4, "
    "PolynomialTrend, ExponentialSmoothing, Theta, AutoETS (auto on: n_jobs), Ensemble (n_jobs), TransformedTarget "
    "pipeline (+ transform / inverse_transform), Multiplex, Stacking (n_jobs), the 8 reducers with a stub regressor, "
    "ForecastingGridSearchCV (n_jobs). Series transformers (Series and 2-column DataFrame, float / int64, 12..20 "
    "points + 12 later points + an unrelated series; fit, fit_transform, fit+update): HampelFilter windows 3/4/7/10 x "
    "n_sigma x return_bool on data with spikes / NaN, Imputer all 12 methods (random_state 0/1/7) with NaN inside and "
    "at both ends, BoxCox, Log, Cosine, Mean, Deseasonalizer sp 3/4/5, ConditionalDeseasonalizer, Detrender "
    "(polynomial and window forecasters), ACF, PACF, TabularToSeriesAdaptor, OptionalPassthrough. Panel transformers "
    "(nested DataFrame and 3D numpy, 5..8 cases x 1..2 columns x 13..24 points): PAA, SAX, SFA (8 option sets, "
    "n_jobs 1/2/4), DWT, HOG1D, TSInterpolator, MatrixProfile, Padding, Truncation, PCA, Tabularizer, Interval / "
    "RandomInterval / SlidingWindow segmenters, Slope, DerivativeSlope, PlateauFinder, RandomIntervalFeatureExtractor, "
    "ShapeletTransform, FittedParamExtractor (n_jobs), ColumnConcatenator, row transformers; random_state 0/1/7 and "
    "None (purity only). Classifiers (nested and 3D numpy, 8..10 cases x 40 points, noisy test cases): BOSSEnsemble, "
    "IndividualBOSS, ContractableBOSS, IndividualTDE (all n_jobs), ColumnEnsembleClassifier, MUSE (thorough only). "
    "quick enumerates a rotating part of these (depends on the seed), thorough all. NOT covered because they do not "
    "run under the installed sklearn / pandas even with the shim: TimeSeriesForest*, RISE, SupervisedTimeSeriesForest, "
    "Composable forests, WEASEL, TemporalDictionaryEnsemble, SFA information-gain binning, panel ColumnTransformer / "
    "FeatureUnion, kNN / distance based, Rocket, soft-dependency estimators (ARIMA, Prophet, TBATS, tsfresh, catch22, "
    "stumpy), a period index with non-window forecasters, ContractedShapeletTransform (time contract), process based "
    "joblib backends, random_state=None for methods that draw at call time (Imputer random, BOSS tie breaks)."
)

GROUPS = (("forecaster", "forecaster_subjects"), ("series", "series_transformer_subjects"),
          ("panel", "panel_transformer_subjects"), ("classifier", "classifier_subjects"))


def _run_all(R, tier, seed, name_filter=None, limit=None, protocol_checks=True):
    import joblib
    run = Runner(R, seed)
    with joblib.parallel_backend("threading"):
        for _, fn in GROUPS:
            subs = globals()[fn](tier, seed)
            if name_filter is not None:
                subs = [S for S in subs if name_filter(S.name)]
            if limit is not None:
                subs = subs[:limit]
            for idx, S in enumerate(subs):
                try:
                    # thorough: a rotating quarter of the configurations also gets every ordered pair of (at most
                    # four of the) calls as (i, j, i) on its own freshly fitted estimator
                    run.run(S, tier, pairs=(tier == "thorough" and (idx + seed) % 4 == 0))
                except Exception as e:        # the protocol itself must not stop the run
                    R.check(K_RAISE, False, f"{S.name}: protocol stopped by {_err(e)}")
        if protocol_checks:
            forecaster_protocol_checks(R, tier, seed)


def bounded(tier, seed):
    R = Recorder(BOUND)
    _run_all(R, "thorough" if tier == "thorough" else "quick", int(seed))
    return R.result()


def replay(rec):
    """the symbolic models of C12 obligations (purity of a region of code) carry no concrete series: the target / case
    text selects the estimator families whose real code is run through the protocol; integers of the model, when
    present, become the random seed"""
    m = rec.get("model") or {}
    text = " ".join(str(rec.get(k, "")) for k in ("target", "case", "obligation")).lower()
    seed = abs(mint(m, "seed", mint(m, "random_state", 0))) % 1000
    families = {
        "hampel": ("outlier", "hampel"), "imputer": ("impute",), "boxcox": ("boxcox", "box_cox", "logtransformer"),
        "detrender": ("detrend",), "deseasonalizer": ("deseason",),
        "naiveforecaster": ("_sktime", "naive", "window", "_update_y_x", "in_sample", "in-sample"),
        "forecaster": ("_meta", "ensemble", "forecast", "predict"),
        "boss": ("boss", "n_jobs", "dictionary"), "sfa": ("sfa",),
        "segmenter": ("segment", "interval"), "pickle": ("pickle",),
    }
    wanted = [fam for fam, keys in families.items() if any(k in text for k in keys)]
    R = Recorder("replay")
    about_fh = any(w in text for w in ("_set_fh", "horizon", "refit", "second fit", "stored fh"))
    if wanted and wanted != ["pickle"]:
        def flt(name):
            low = name.lower()
            return any(w in low for w in wanted if w != "pickle")
        _run_all(R, "quick", seed, name_filter=flt, limit=12, protocol_checks=about_fh)
    else:
        def flt(name):
            low = name.lower()
            return any(w in low for w in ("hampel", "imputer({'method': 'random'", "naiveforecaster({'strategy': 'mean'",
                                          "bossensemble(max", "deseasonalizer(sp=4", "sfa("))
        _run_all(R, "quick", seed, name_filter=flt, limit=6, protocol_checks=about_fh)
    # the triaged defects of the unchanged tree only count when the record is about them
    relevant = {"KF:predict-without-fh-returns-horizon-of-previous-predict": about_fh}
    R.failures = [f for f in R.failures if relevant.get(f["key"], True)]
    return {"reproduced": bool(R.failures), "detail": R.failures[:3],
            "input": {"families": wanted or "representative subset", "seed": seed, "cases": R.cases}}
