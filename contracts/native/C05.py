"""C05 native oracle: the reduction forecasters on the real code with a recording stub regressor."""
import itertools

import numpy as np
import pandas as pd

from .common import Recorder, ints_from_model, mint

LOG = []


class Rec:
    """deterministic regressor: remembers what it is fitted on, predicts a fixed function of its input"""

    def __init__(self, tag=0):
        self.tag = tag

    def get_params(self, deep=True):
        return {"tag": self.tag}

    def set_params(self, **p):
        self.tag = p.get("tag", self.tag)
        return self

    def fit(self, X, y):
        self.X_, self.y_ = np.array(X, dtype=float), np.array(y, dtype=float)
        self.id_ = len(LOG)
        LOG.append(("fit", self, self.X_, self.y_))
        return self

    def predict(self, X):
        X = np.array(X, dtype=float)
        LOG.append(("predict", self, X))
        flat = X.reshape(X.shape[0], -1)
        wts = np.arange(1, flat.shape[1] + 1) * 0.01
        out = flat @ wts + 1000.0 * (self.id_ + 1)
        if self.y_.ndim == 2 and self.y_.shape[1] > 1:
            return np.tile(out[:, None], (1, self.y_.shape[1])) + np.arange(self.y_.shape[1])[None, :] * 0.5
        # numpy 2 refuses y_pred[i] = array([v]) (numpy < 1.20 stored the element): return the scalar
        return out[0] if out.shape[0] == 1 else out


def f_of(est, X):
    X = np.array(X, dtype=float)
    flat = X.reshape(X.shape[0], -1)
    return flat @ (np.arange(1, flat.shape[1] + 1) * 0.01) + 1000.0 * (est.id_ + 1)


def windows(z, w, fh):
    """independent oracle: rows = all full windows; X[r] = z[r:r+w] (columns x lags); y[r,i] = z[r+w+fh_i-1, 0]"""
    n = z.shape[0]
    E = w + max(fh) - 1
    rows = n - E
    X = np.array([[z[r:r + w, c] for c in range(z.shape[1])] for r in range(rows)])      # (rows, cols, w)
    Y = np.array([[z[r + w + h - 1, 0] for h in fh] for r in range(rows)])
    return X, Y


def check(R, strategy, scitype, n, w, fh, ncols, l0=0, updates=0):
    from sktime.forecasting.compose import make_reduction
    LOG.clear()
    rng = np.random.RandomState(n * 100 + w)
    yv = np.round(rng.rand(n + 14) * 10, 3) + np.arange(n + 14)
    y = pd.Series(yv[:n], index=pd.RangeIndex(l0, l0 + n))
    X = pd.DataFrame(np.round(rng.rand(n + 4 + max(fh), ncols) * 5, 3), index=pd.RangeIndex(l0, l0 + n + 4 + max(fh))) if ncols else None
    Xtr = X.iloc[:n] if ncols else None
    desc = f"{strategy}/{scitype} n={n} w={w} fh={fh} ncols={ncols} l0={l0} updates={updates}"
    tab = scitype == "tabular-regressor"
    try:
        f = make_reduction(Rec(), scitype=scitype, strategy=strategy, window_length=w)
        f.fit(y, Xtr, fh=list(fh))
    except (ValueError, NotImplementedError) as e:
        ok = (w + (1 if strategy == "recursive" else max(fh)) - 1 >= n) or (strategy == "dirrec" and ncols)
        R.check("accepts-valid", ok, f"{desc}: fit raised {type(e).__name__}: {e}")
        return
    z = np.column_stack([y.values] + ([Xtr.values] if ncols else []))
    fits = [e for e in LOG if e[0] == "fit"]
    fh_fit = [1] if strategy == "recursive" else list(fh)
    Xw, Yw = windows(z, w, fh_fit)
    Xexp = Xw.reshape(Xw.shape[0], -1) if tab else Xw
    if strategy in ("recursive", "multioutput"):
        R.check("fit-once", len(fits) == 1, f"{desc}: {len(fits)} fit calls")
        if fits:
            R.check("train-rows-are-lagged-windows", fits[0][2].shape == Xexp.shape and np.allclose(fits[0][2], Xexp), f"{desc}: X passed to fit {fits[0][2].shape} differs from the {Xexp.shape} windows")
            ty = Yw.ravel() if strategy == "recursive" else Yw
            R.check("train-targets-h-steps-after-window", fits[0][3].shape == ty.shape and np.allclose(fits[0][3], ty), f"{desc}: y passed to fit differs")
    elif strategy == "direct":
        R.check("fit-per-step", len(fits) == len(fh), f"{desc}: {len(fits)} fit calls")
        for i, e in enumerate(fits[: len(fh)]):
            R.check("train-rows-are-lagged-windows", e[2].shape == Xexp.shape and np.allclose(e[2], Xexp), f"{desc}: step {i}: X passed to fit {e[2].shape} differs from {Xexp.shape}")
            R.check("train-targets-h-steps-after-window", e[3].shape == Yw[:, i].shape and np.allclose(e[3], Yw[:, i]), f"{desc}: step {i}: y passed to fit differs")
    else:   # dirrec
        R.check("fit-per-step", len(fits) == len(fh), f"{desc}: {len(fits)} fit calls")
        for i, e in enumerate(fits[: len(fh)]):
            full = np.concatenate([Xw, Yw[:, None, :i]], axis=2)
            exp = full.reshape(full.shape[0], -1) if tab else full
            R.check("train-rows-are-lagged-windows", e[2].shape == exp.shape and np.allclose(e[2], exp), f"{desc}: dirrec step {i}: X passed to fit differs")
            R.check("train-targets-h-steps-after-window", np.allclose(e[3], Yw[:, i]), f"{desc}: dirrec step {i}: y differs")
    # ---- optional updates without refitting: the window must follow the cutoff
    yall, Xall = y, Xtr
    for u in range(max(updates, 0)):
        ynew = pd.Series(yv[n + u: n + u + 1], index=pd.RangeIndex(l0 + n + u, l0 + n + u + 1))
        Xnew = X.iloc[n + u: n + u + 1] if ncols else None
        try:
            f.update(ynew, Xnew, update_params=False)
        except Exception as e:
            R.check("update-no-error", False, f"{desc}: update raised {type(e).__name__}: {e}")
            return
        yall = pd.concat([yall, ynew])
        Xall = pd.concat([Xall, Xnew]) if ncols else None
    behind = 0
    if updates == -1:
        # update_predict over later data remembers it but restores the cutoff: the forecast must still be made
        # from the window that ENDS AT THE CUTOFF, not from the end of the remembered data
        k = w + max(fh) + 1
        ynew = pd.Series(yv[n: n + k], index=pd.RangeIndex(l0 + n, l0 + n + k))
        try:
            f.update_predict(ynew, update_params=False)
        except Exception as e:
            R.check("update-no-error", False, f"{desc}: update_predict raised {type(e).__name__}: {e}")
            return
        R.check("cutoff-restored", f.cutoff == y.index[-1], f"{desc}: cutoff {f.cutoff} after update_predict")
    ests = [e[1] for e in fits]
    LOG.clear()
    cutoff_pos = len(yall)
    Xfut = X.iloc[cutoff_pos: cutoff_pos + max(fh)] if ncols else None
    try:
        pred = f.predict(X=Xfut) if strategy != "recursive" else f.predict(fh=list(fh), X=Xfut)
    except Exception as e:
        R.check("predict-no-error", False, f"{desc}: predict raised {type(e).__name__}: {e}")
        return
    zz = np.column_stack([yall.values] + ([Xall.values] if ncols else []))
    last = zz[-w:].T[None, :, :]                       # (1, cols, w)
    calls = [e for e in LOG if e[0] == "predict"]
    if strategy == "direct":
        exp_in = last.reshape(1, -1) if tab else last
        want = [float(f_of(ests[i], exp_in)[0]) for i in range(len(fh))]
        for c in calls:
            R.check("predict-fed-last-window", c[2].shape == exp_in.shape and np.allclose(c[2], exp_in), f"{desc}: regressor input at predict differs from the last {w} observations")
    elif strategy == "multioutput":
        exp_in = last.reshape(1, -1) if tab else last
        want = list(ests[0].predict(exp_in).ravel())
        R.check("predict-fed-last-window", len(calls) == 1 and np.allclose(calls[0][2], exp_in), f"{desc}: regressor input at predict differs from the last window")
    elif strategy == "recursive":
        cur = last.copy()
        outs = []
        for i in range(max(fh)):
            inp = cur.reshape(1, -1) if tab else cur
            v = float(f_of(ests[0], inp)[0])
            outs.append(v)
            R.check("recursive-feeds-back-predictions", i < len(calls) and calls[i][2].shape == inp.shape and np.allclose(calls[i][2], inp),
                    f"{desc}: input of recursive call {i} differs from (observed lags + earlier predictions)")
            nxt = np.empty((1, cur.shape[1], 1))
            nxt[0, 0, 0] = v
            if ncols:
                nxt[0, 1:, 0] = Xfut.values[i]
            cur = np.concatenate([cur[:, :, 1:], nxt], axis=2)
        want = [outs[h - 1] for h in fh]
    else:
        cur = last.copy()
        want = []
        for i in range(len(fh)):
            inp = cur.reshape(1, -1) if tab else cur
            v = float(f_of(ests[i], inp)[0])
            want.append(v)
            R.check("recursive-feeds-back-predictions", i < len(calls) and calls[i][2].shape == inp.shape and np.allclose(calls[i][2], inp),
                    f"{desc}: input of dirrec call {i} differs from (observed lags + earlier predictions)")
            cur = np.concatenate([cur, np.full((1, cur.shape[1], 1), v)], axis=2)
    R.check("forecast-is-regressor-output-for-its-step", len(pred) == len(fh) and np.allclose(pred.values, want), f"{desc}: forecast {list(np.round(pred.values, 3))} expected {list(np.round(want, 3))}")
    cut = yall.index[-1]
    R.check("forecast-index", list(pred.index) == [cut + h for h in fh], f"{desc}: index {list(pred.index)}")


FHS = [(1,), (1, 2), (2,), (1, 3), (2, 4), (1, 2, 3), (3,)]


def bounded(tier, seed):
    R = Recorder("strategies x scitypes, n in 8..12, window 1..4, horizons " + str(FHS) + ", 0 or 2 exogenous columns, index start 0/5, 0 or 2 updates without refit")
    for strategy in ("direct", "recursive", "multioutput", "dirrec"):
        for sci in ("tabular-regressor", "time-series-regressor"):
            for n in ((8, 11) if tier == "quick" else (8, 9, 11, 12)):
                for w in (1, 2, 3, 4):
                    for fh in FHS:
                        for ncols in ((0, 2) if strategy != "dirrec" else (0,)):
                            for l0, upd in ((0, 0), (5, 2)):
                                check(R, strategy, sci, n, w, fh, ncols, l0, upd)
                            if ncols == 0 and n == 8:
                                check(R, strategy, sci, n, w, fh, ncols, 3, -1)
    return R.result()


def replay(rec):
    m = rec.get("model") or {}
    target, case = rec["target"], rec["case"]
    R = Recorder("replay")
    n = max(mint(m, "n", 9), 3)
    w = max(mint(m, "w", 2), 1)
    nf = max(mint(m, "len(fh)", 1), 1)
    fh = ints_from_model(m, "fh", nf) if "fh" in m else [mint(m, f"fh{i}", i + 1) for i in range(3) if f"fh{i}" in m]
    fh = sorted(set(max(1, h) for h in fh)) or [1]
    ncols = max(mint(m, "ncols", 1), 1) if case.startswith("X") else 0
    sci = "tabular-regressor" if "tabular" in case else "time-series-regressor"
    strategies = {"_Recursive": "recursive", "_Direct": "direct", "_Multioutput": "multioutput", "_DirRec": "dirrec"}
    strat = [v for k, v in strategies.items() if k in target]
    inp = {"n": n, "w": w, "fh": fh, "ncols": ncols, "scitype": sci}
    for s in (strat or ["direct", "recursive", "multioutput"]):
        for nn in (n, n + 3):
            check(R, s, sci, nn, w, tuple(fh), 0 if s == "dirrec" else ncols)
        check(R, s, sci, max(n, 8), w, tuple(fh), 0, 3, -1)
    f = R.failures
    return {"reproduced": bool(f), "detail": f[:3], "input": inp}
