"""C04: scikit-learn protocol, decided statically for EVERY estimator class of the package (also those that cannot
be imported in this sandbox): the real __init__ (through its super().__init__ chain) is executed symbolically with
pairwise distinct arguments; apply-type methods are executed on the freshly constructed object."""
import ast
import os

from pyvc.spec import *   # noqa
from pyvc.values import SArr, SList, SObj, Opaque, SSeries, AbstractObj, ClassVal, ExtClass, FuncVal, is_sym
from pyvc.source import SourceTable
from pyvc import ops
import z3

APPLY_METHODS = ("predict", "predict_proba", "transform", "inverse_transform", "update", "update_predict",
                 "update_predict_single", "score")
SKIP_DIRS = ("/tests/", "/contrib/", "/_testing/", "/_build_utils/", "sktime/__check_build")
BASE_NAMES = {"BaseEstimator", "_BaseEstimator", "BaseForecaster", "BaseClassifier", "BaseRegressor", "BaseTransformer",
              "_SktimeForecaster", "_HeterogenousMetaEstimator", "_MetricFunctionWrapper", "BaseGridSearch",
              "ForestClassifier", "ForestRegressor", "BaseForest", "ClassifierMixin", "RegressorMixin", "TransformerMixin",
              "_KNeighborsClassifier", "_ColumnTransformer", "BaseSeriesAnnotator"}


def _scan():
    """(path, class name) of every class that (syntactically, transitively by base-class NAME) derives from an estimator base"""
    src = SourceTable()
    classes = {}
    for p in src.all_module_paths():
        if any(s in "/" + p for s in SKIP_DIRS):
            continue
        try:
            tree = ast.parse(open(os.path.join(src.root, p), encoding="utf-8").read())
        except SyntaxError:
            continue
        for n in tree.body:
            if isinstance(n, ast.ClassDef):
                bases = []
                for b in n.bases:
                    bases.append(b.id if isinstance(b, ast.Name) else (b.attr if isinstance(b, ast.Attribute) else None))
                classes.setdefault(n.name, []).append((p, bases, n))
    est = set(BASE_NAMES)
    changed = True
    while changed:
        changed = False
        for name, defs in classes.items():
            if name in est:
                continue
            if any(b in est for (_, bases, _) in defs for b in bases if b):
                est.add(name)
                changed = True
    out = []
    for name, defs in classes.items():
        if name in est:
            for (p, bases, node) in defs:
                out.append((p, name))
    return sorted(out)


def _arg_for(B, name, default_node, idx):
    """pairwise distinct argument values; typed like the default so that validating constructors accept them"""
    if default_node is not None and isinstance(default_node, ast.Constant):
        d = default_node.value
        if isinstance(d, bool):
            return d                      # bools: stored value must be the same object
        if isinstance(d, int):
            v = B.int(f"arg_{name}")
            B.assume(v >= 1)
            return v
        if isinstance(d, float):
            return B.real(f"arg_{name}")
        if isinstance(d, str):
            return d                      # option strings are usually validated against a fixed set
    o = B.opaque(f"arg_{name}")
    o.subscriptable = True    # `arg[0]` is again an unknown value (see Interp.getitem); its truth value is symbolic
    return o


def _ctor_inputs(path, clsname):
    def inputs(B, case):
        I = B.I
        mod = I.src.module_by_path(path)
        ok, cls = I.mod_global(mod, clsname)
        c, init = I.class_lookup(cls, "__init__")
        obj = SObj(cls)
        d = {"self": obj}
        if isinstance(init, FuncVal):
            a = init.node.args
            params = (a.posonlyargs + a.args)[1:]
            defaults = [None] * (len(params) - len(a.defaults)) + list(a.defaults)
            for i, (p, dn) in enumerate(zip(params, defaults)):
                d[p.arg] = _arg_for(B, p.arg, dn, i)
            for p, dn in zip(a.kwonlyargs, a.kw_defaults):
                d[p.arg] = _arg_for(B, p.arg, dn, 0)
        obj.ghost_args = {k: v for k, v in d.items() if k != "self"}
        return d
    return inputs


def same(a, b):
    if is_sym(a) and is_sym(b):
        return Eq(a, b)
    if isinstance(a, (bool, str, int)) and isinstance(b, (bool, str, int)):
        return type(a) is type(b) and a == b
    return a is b


def _ctor_post(A, r):
    s = A.self
    conds = []
    for p, v in s.ghost_args.items():
        if p not in s.attrs:
            return False
        conds.append(same(s.attrs[p], v))
    conds.append(("_is_fitted" not in s.attrs) or (s.attrs["_is_fitted"] is False))
    return And(*conds)


CLASSES = _scan()
# constructors documented upstream as deviating from the convention are still checked; the known ones are listed in
# /verif/known_findings.json (region = the class)
for (_p, _c) in CLASSES:
    _may = [("ValueError", lambda A: True), ("TypeError", lambda A: True), ("NotImplementedError", lambda A: True),
            ("ModuleNotFoundError", lambda A: True), ("ImportError", lambda A: True)]
    if _c.startswith("Base") or _c.startswith("_"):
        # abstract bases may refuse to be constructed on their own (they read class attributes defined by subclasses)
        _may.append(("AttributeError", lambda A: True))
    contract(f"{_p}::{_c}.__init__#ctor", "C04", cases=["-"], inputs=_ctor_inputs(_p, _c),
             ensures=[("stores-every-argument-under-its-own-name-and-is-unfitted", _ctor_post)],
             may_raise=_may, best_effort=True)


# ----------------------------------------------------------------------------- nested parameters of composites
from contracts.C09_compose import mk_ensemble, mk_members, calls
from contracts.C07_evaluate import forecaster as abstract_forecaster, trace

META = "sktime/base/_meta.py"


def _member(B, tag):
    f = abstract_forecaster(B, tag)
    f.closed_isa = True
    f.params = {"a": B.opaque(f"{tag}.a")}
    return f


def _mk_ens(B):
    I = B.I
    ok, cls = I.mod_global(I.src.module("sktime.forecasting.compose._ensemble"), "EnsembleForecaster")
    ms = [_member(B, "m0"), _member(B, "m1")]
    lst = SList([SList(["f0", ms[0]], "tuple"), SList(["f1", ms[1]], "tuple")], "list")
    obj = I.instantiate(cls, [lst], {})
    return obj, ms, lst


SP_CASES = ["replace-list", "replace-by-name", "nested", "list-and-name-from-new-list", "list-and-name-only-in-old-list", "unknown", "plain"]


def _sp_inputs(B, case):
    from pyvc.values import SDict
    obj, ms, lst = _mk_ens(B)
    new = [_member(B, "n0"), _member(B, "n1")]
    newlst = SList([SList(["x", new[0]], "tuple"), SList(["y", new[1]], "tuple")], "list")
    repl = _member(B, "replacement")
    val = B.opaque("value")
    params = {"replace-list": {"forecasters": newlst}, "replace-by-name": {"f1": repl}, "nested": {"f0__a": val},
              "list-and-name-from-new-list": {"forecasters": newlst, "y": repl},
              "list-and-name-only-in-old-list": {"forecasters": newlst, "f1": repl},
              "unknown": {"nonexistent": val}, "plain": {"n_jobs": val}}[case]
    obj.ghost = {"ms": ms, "lst": lst, "new": new, "newlst": newlst, "repl": repl, "val": val, "case": case}
    return {"self": obj, "attr": "forecasters", "params": SDict(params)}


def _names_members(lst):
    return [(t.items[0], t.items[1]) for t in lst.items]


def _sp_post(A, r):
    s = A.self
    g = s.ghost
    case = g["case"]
    cur = s.attrs["forecasters"]
    if not isinstance(cur, SList):
        return False
    nm = _names_members(cur)
    ms, new, repl = g["ms"], g["new"], g["repl"]
    if case == "replace-list":
        return cur is g["newlst"]
    if case == "replace-by-name":
        return nm[0][0] == "f0" and nm[0][1] is ms[0] and nm[1][0] == "f1" and nm[1][1] is repl and len(nm) == 2
    if case == "nested":
        sp = calls(ms[0], "set_params")
        return len(sp) == 1 and sp[0].kwargs.get("a") is g["val"] and nm[0][1] is ms[0] and nm[1][1] is ms[1] and not calls(ms[1], "set_params")
    if case == "list-and-name-from-new-list":
        # whole list first, THEN replacement by name within the new list
        return len(nm) == 2 and nm[0][0] == "x" and nm[0][1] is new[0] and nm[1][0] == "y" and nm[1][1] is repl and "y" not in s.attrs
    if case == "plain":
        return s.attrs["n_jobs"] is g["val"] and cur is g["lst"]
    return False


contract(f"{META}::_HeterogenousMetaEstimator._set_params", "C04", cases=SP_CASES, inputs=_sp_inputs,
         raises=[("ValueError", lambda A: A.self.ghost["case"] in ("unknown", "list-and-name-only-in-old-list"))],
         ensures=[("whole-list-then-replacement-by-name-then-plain-and-nested-parameters", _sp_post)],
         notes=["BaseEstimator.set_params/get_params are sklearn's (0.24 semantics, modelled from the documented algorithm)"])


# the column ensemble keeps (name, estimator, column) triples and exposes (name, estimator) pairs through a PROPERTY with a
# setter: replacement by name has to go through that setter (an in-place edit of the derived list is lost)
CE = "sktime/classification/compose/_column_ensemble.py"


def _ce_inputs(B, case):
    from pyvc.values import SDict
    I = B.I
    ok, cls = I.mod_global(I.src.module("sktime.classification.compose._column_ensemble"), "ColumnEnsembleClassifier")
    ms = [_member(B, "c0"), _member(B, "c1")]
    cols = [B.opaque("col0"), B.opaque("col1")]
    lst = SList([SList(["e0", ms[0], cols[0]], "tuple"), SList(["e1", ms[1], cols[1]], "tuple")], "list")
    obj = I.instantiate(cls, [lst], {})
    repl = _member(B, "replacement")
    val = B.opaque("value")
    params = {"replace-by-name": {"e1": repl}, "nested": {"e0__a": val}, "unknown": {"nonexistent": val}}[case]
    obj.ghost = {"ms": ms, "cols": cols, "repl": repl, "val": val, "case": case}
    return {"self": obj, "attr": "_estimators", "params": SDict(params)}


def _ce_post(A, r):
    s = A.self
    g = s.ghost
    cur = s.attrs["estimators"]
    if not isinstance(cur, SList) or len(cur.items) != 2:
        return False
    t = [x.items for x in cur.items]
    ms, cols = g["ms"], g["cols"]
    same_cols = t[0][0] == "e0" and t[1][0] == "e1" and t[0][2] is cols[0] and t[1][2] is cols[1]
    if g["case"] == "replace-by-name":
        return same_cols and t[0][1] is ms[0] and t[1][1] is g["repl"]
    if g["case"] == "nested":
        sp = calls(ms[0], "set_params")
        return same_cols and len(sp) == 1 and sp[0].kwargs.get("a") is g["val"] and t[0][1] is ms[0] and t[1][1] is ms[1]
    return False


contract(f"{META}::_HeterogenousMetaEstimator._set_params#column-ensemble", "C04", cases=["replace-by-name", "nested", "unknown"],
         inputs=_ce_inputs, raises=[("ValueError", lambda A: A.self.ghost["case"] == "unknown")],
         ensures=[("replacement-by-name-reaches-the-stored-triples-through-the-property-setter", _ce_post)],
         notes=["receiver is a ColumnEnsembleClassifier: `_estimators` is a property deriving (name, estimator) pairs from the stored triples"])


def _gp_post(A, r):
    """get_params(deep=True): constructor parameters, each component under its name, each component parameter under name__key"""
    from pyvc.values import SDict
    s = A.self
    ms = s.ghost["ms"]
    if not isinstance(r, SDict):
        return False
    d = r.items
    return (d.get("forecasters") is s.attrs["forecasters"] and d.get("f0") is ms[0] and d.get("f1") is ms[1] and
            d.get("f0__a") is ms[0].params["a"] and d.get("f1__a") is ms[1].params["a"] and "n_jobs" in d and "aggfunc" in d)


def _gp_inputs(B, case):
    obj, ms, lst = _mk_ens(B)
    obj.ghost = {"ms": ms}
    return {"self": obj, "attr": "forecasters", "deep": True}


contract(f"{META}::_HeterogenousMetaEstimator._get_params", "C04", cases=["-"], inputs=_gp_inputs,
         ensures=[("components-and-their-parameters-are-exposed-under-nested-names", _gp_post)], frame=lambda A: [A.self])


# ----------------------------------------------------------------------------- not-fitted guard, every class x apply-type method

def _guard_inputs(path, clsname, meth):
    ci = _ctor_inputs(path, clsname)

    def inputs(B, case):
        I = B.I
        d0 = ci(B, case)
        obj = d0.pop("self")
        mod = I.src.module_by_path(path)
        ok, cls = I.mod_global(mod, clsname)
        # construct through the REAL constructor (fresh, never fitted)
        frozen, I.ctx.frozen = I.ctx.frozen, None
        try:
            obj = I.instantiate(cls, [], dict(d0))
        finally:
            I.ctx.frozen = frozen
        c, m = I.class_lookup(cls, meth)
        d = {"self": obj}
        a = m.node.args
        params = (a.posonlyargs + a.args)[1:]
        nreq = len(params) - len(a.defaults)
        from contracts.C01_split import sym_series
        from contracts.C02_fh import sym_fh
        for p in params[:nreq]:
            # well-formed arguments: the guard must fire for VALID input (input validation may legitimately come first)
            if p.arg in ("y", "Z", "y_new", "y_train", "y_pred", "y_test"):
                d[p.arg] = sym_series(B, p.arg)
            elif p.arg == "fh":
                d[p.arg] = sym_fh(B, "fh_arg", nonempty=True, oos=True)
            elif p.arg == "X" and any(seg in path for seg in ("/classification/", "/regression/", "/transformations/panel/", "/series_as_features/")):
                # a well-formed panel: 3-d array (instances, columns, time points)
                d[p.arg] = B.arr("arg_X", dtype="real", shape=[B.int("arg_X.n_instances", 1), 1, B.int("arg_X.n_timepoints", 1)])      # univariate: accepted by every panel estimator
            else:
                d[p.arg] = B.opaque(f"arg_{p.arg}")
        return d
    return inputs


def _guard_targets():
    from pyvc.ctx import Ctx, Undecided, SymRaise
    from pyvc.interp import Interp
    I = Interp(SourceTable(), Ctx([]), {})
    out = []
    for (p, c) in CLASSES:
        if c.startswith("Base") or c.startswith("_"):
            continue
        try:
            ok, cls = I.mod_global(I.src.module_by_path(p), c)
            if not ok or not isinstance(cls, ClassVal):
                continue
            for m in APPLY_METHODS:
                try:
                    cc, fv = I.class_lookup(cls, m)
                except Exception:
                    continue
                if isinstance(fv, FuncVal) and fv.kind == "function":
                    out.append((p, c, m))
        except Exception:
            continue
    return out


for (_p, _c, _m) in _guard_targets():
    contract(f"{_p}::{_c}.{_m}#not-fitted-guard", "C04", cases=["fresh"], inputs=_guard_inputs(_p, _c, _m),
             raises=[("NotFittedError", lambda A: True)], expect={"fresh": "raise"},
             best_effort=True, modular=False,
             notes=["apply-type method on a freshly constructed estimator: every path must raise NotFittedError"])
