"""C11/C03: PolynomialTrendForecaster time axis and statsmodels adapter index arithmetic."""
from pyvc.spec import *   # noqa
from pyvc.values import SArr, SList, SObj, Opaque, SSeries, AbstractObj
from pyvc.libmodels import Event
from pyvc import ops
import z3
from contracts.C02_fh import sym_fh, vals
from contracts.C01_split import sym_series
from contracts.C07_evaluate import trace

TR = "sktime/forecasting/trend.py"
Z = ops.to_z3


def mk_trend(B, fitted):
    I = B.I
    ok, cls = I.mod_global(I.src.module("sktime.forecasting.trend"), "PolynomialTrendForecaster")
    deg = B.int("degree", 1)
    wi = B.bool("with_intercept")
    obj = I.instantiate(cls, [], {"degree": deg, "with_intercept": wi})
    if fitted:
        y = sym_series(B, "y", n=B.int("n", 1), l0=B.int("l0"))
        n, l0 = Z(y.index.len), Z(y.index.closed[0])
        cutoff = B.int("cutoff")
        B.assume(And(cutoff >= l0, cutoff <= l0 + n - 1))
        reg = B.abstract("fitted_polynomial_pipeline", isa=("Pipeline",))
        obj.attrs.update({"_y": y, "_X": None, "_cutoff": cutoff, "_is_fitted": True, "regressor_": reg})
    return obj


def _fit_post(A, r):
    """the polynomial pipeline is fitted on the zero-based time axis 0..n-1 of the training series"""
    s = A.self
    reg = s.attrs.get("regressor_")
    if not isinstance(reg, AbstractObj) or not hasattr(reg, "parts") or len(reg.parts) != 2:
        return False
    pf, lr = reg.parts
    fits = [e for e in trace() if e.obj is reg and e.method == "fit"]
    if len(fits) != 1 or not isinstance(pf, Opaque) or not hasattr(pf, "ctor"):
        return False
    n = A.y.index.len
    Xw = SArr((n, 1), lambda i, j: i, "int", "ndarray")
    return And(pf.ctor[0].endswith("PolynomialFeatures"), pf.ctor[2].get("degree") is s.attrs["degree"],
               pf.ctor[2].get("include_bias") is s.attrs["with_intercept"],
               isinstance(lr, Opaque) and lr.ctor[0].endswith("LinearRegression") and lr.ctor[2].get("fit_intercept") is False,
               equiv(fits[0].arg(0), Xw), equiv(fits[0].arg(1), A.y), r is s, s.attrs.get("_is_fitted") is True,
               Eq(s.attrs["_cutoff"], ops.simp(Z(A.y.index.closed[0]) + Z(n) - 1)))


contract(f"{TR}::PolynomialTrendForecaster.fit", "C11,C03", cases=["-"],
         inputs=lambda B, case: {"self": mk_trend(B, False), "y": sym_series(B, "y", n=B.int("n", 1), l0=B.int("l0")), "X": None,
                                 "fh": sym_fh(B, "fh", nonempty=True, oos=False)},
         ensures=[("least-squares-polynomial-on-zero-based-time-axis", _fit_post)],
         notes=["'least-squares polynomial of that degree' is sklearn's PolynomialFeatures + LinearRegression (assumed); proved here: which "
                "degree / intercept options and which time axis they are given"])


def _pred_post(A, r):
    """evaluated at (time point - first training time point) for every requested time point, in-sample or not,
    wherever the cutoff is; labelled with the requested time points"""
    s = A.self
    reg = s.attrs["regressor_"]
    y = s.attrs["_y"]
    pe = [e for e in trace() if e.obj is reg and e.method == "predict"]
    if len(pe) != 1 or not isinstance(r, Opaque) or not r.prov or r.prov[0] != "series":
        return False
    fhv = vals(A.fh)
    rel = A.fh.attrs["_is_relative"]
    labels = Seq(fhv.len, lambda i: ops.simp(Z(fhv.fn(i)) + Z(s.attrs["_cutoff"])) if rel else fhv.fn(i))
    Xw = SArr((fhv.len, 1), lambda i, j: ops.simp(Z(labels.fn(i)) - Z(y.index.closed[0])), "int", "ndarray")
    idx = r.prov[2]
    return And(equiv(pe[0].arg(0), Xw), r.prov[1] is pe[0].result,
               isinstance(idx, SObj) and equiv(vals(idx), labels) if isinstance(idx, SObj) else False)


contract(f"{TR}::PolynomialTrendForecaster._predict", "C11,C03,C12", cases=["rel", "abs"],
         inputs=lambda B, case: (lambda o: (o.attrs.update({"_fh": sym_fh(B, "fh", relative=(case == "rel"), nonempty=True)}) or
                                            {"self": o, "fh": o.attrs["_fh"], "X": None}))(mk_trend(B, True)),
         ensures=[("same-time-axis-as-fit-labelled-with-requested-points", _pred_post)],
         frame=lambda A: [A.self])


# ----------------------------------------------------------------------------- exponential smoothing: every option reaches statsmodels under its own keyword
ES = "sktime/forecasting/exp_smoothing.py"
_ES_OPTS = {"trend": "trend", "damped_trend": "damped_trend", "seasonal": "seasonal", "sp": "seasonal_periods", "use_boxcox": "use_boxcox",
            "initial_level": "initial_level", "initial_trend": "initial_trend", "initial_seasonal": "initial_seasonal",
            "initialization_method": "initialization_method"}


def _es_inputs(B, case):
    I = B.I
    ok, cls = I.mod_global(I.src.module("sktime.forecasting.exp_smoothing"), "ExponentialSmoothing")
    if case == "defaults":
        obj = I.instantiate(cls, [], {})                      # every option at its constructor default (several are None)
        vals = {k: obj.attrs[k] for k in _ES_OPTS}
    else:
        obj = SObj(cls)
        vals = {k: B.opaque("option_" + k) for k in _ES_OPTS}
        obj.attrs.update(vals)
    obj.ghost = dict(vals=vals)
    return {"self": obj, "y": B.opaque("y"), "X": None}


def _es_post(A, r):
    from contracts.C07_evaluate import trace
    evs = [e for e in trace() if e.method == "__init__"]
    if len(evs) != 1:
        return False
    e = evs[0]
    g = A.self.ghost["vals"]
    fits = [x for x in trace() if x.obj is e.result and x.method == "fit"]
    return len(e.args) == 1 and e.args[0] is A.y and set(e.kwargs) == set(_ES_OPTS.values()) and \
        all((e.kwargs[kw] is g[p]) or (isinstance(g[p], (bool, int, str, type(None))) and type(e.kwargs[kw]) is type(g[p]) and e.kwargs[kw] == g[p])
            for p, kw in _ES_OPTS.items()) and A.self.attrs.get("_forecaster") is e.result and \
        len(fits) == 1 and not fits[0].args and not fits[0].kwargs and A.self.attrs.get("_fitted_forecaster") is fits[0].result


contract(f"{ES}::ExponentialSmoothing._fit_forecaster", "C11", cases=["arbitrary-options", "defaults"], inputs=_es_inputs,
         ensures=[("statsmodels-model-built-on-y-with-every-option-under-its-own-keyword-unchanged-then-fitted", _es_post, {"modular": False})],
         notes=["statsmodels is external: the constructor call is recorded, not interpreted; the numbers it produces are compared with a "
                "direct statsmodels call by the bounded tier"])
