"""C08: tuning selects, exposes and refits the candidate with the best CV score (model_selection/_tune.py).

The base forecaster and the metric are abstract; evaluate() enters through its C07 contract (recorded call); the
candidate list is symbolic (1..3 candidates, each an opaque parameter set: the enumeration itself is sklearn's)."""
from pyvc.spec import *   # noqa
from pyvc.values import SArr, SList, SObj, Opaque, SSeries, AbstractObj, SDict
from pyvc.libmodels import Event
from pyvc import ops
import z3
from contracts.C02_fh import sym_fh
from contracts.C01_split import sym_splitter, sym_series, valid_params, ws_rejects
from contracts.C07_evaluate import forecaster as abstract_forecaster, metric, trace

TU = "sktime/forecasting/model_selection/_tune.py"
Z = ops.to_z3


def mk_tuner(B, ncand, refit, gib):
    I = B.I
    ok, cls = I.mod_global(I.src.module("sktime.forecasting.model_selection._tune"), "ForecastingGridSearchCV")
    base = abstract_forecaster(B, "base_forecaster")
    cv = sym_splitter(B, "SlidingWindowSplitter", "noinit|sww")
    sc = metric(B)
    sc.attrs["greater_is_better"] = gib
    grid = B.opaque("param_grid")
    grid.candidates = [SDict({"p": B.opaque(f"value_of_candidate_{j}")}) for j in range(ncand)]
    obj = I.instantiate(cls, [base, cv, grid], {"scoring": sc, "refit": refit, "strategy": "refit"})
    obj.ghost = {"base": base, "cv": cv, "scoring": sc, "cands": grid.candidates}
    return obj


TU_CASES = [f"c{c}|{r}|{g}" for c in (1, 2, 3) for r in ("refit", "norefit") for g in ("loss", "gain")]


def _tu_inputs(B, case):
    c, r, g = case.split("|")
    obj = mk_tuner(B, int(c[1:]), r == "refit", g == "gain")
    y = sym_series(B)
    return {"self": obj, "y": y, "X": None, "fh": sym_fh(B, "fh", nonempty=True, oos=True)}


def _tu_post(A, r):
    s = A.self
    g = s.ghost
    cands = g["cands"]
    n = len(cands)
    evs = trace()
    calls_ev = [e for e in evs if e.method == "call:evaluate"]
    if len(calls_ev) != n:
        return False
    clones = [e.result for e in evs if e.method == "clone" and e.obj is g["base"]]
    if len(clones) != n + 1:
        return False
    conds = [r is s, s.attrs.get("_is_fitted") is True]
    means = []
    rows = s.attrs["cv_results_"].rows
    for j in range(n):
        e = calls_ev[j]
        k = e.kwargs
        sp = [x for x in evs if x.obj is clones[j] and x.method == "set_params"]
        if len(sp) != 1:
            return False
        # every candidate: a fresh clone with exactly that candidate's parameters, same splits / data / metric
        conds += [k["forecaster"] is clones[j], sp[0].kwargs.get("p") is cands[j].items["p"], len(sp[0].kwargs) == 1,
                  k["cv"] is g["cv"], k["y"] is A.y, k["X"] is A.X, k["strategy"] == "refit", k["scoring"] is g["scoring"]]
        # row j of cv_results_ holds the column means of THAT evaluate table and the candidate's parameters
        conds += [rows[j].prov is e.result, rows[j].items["params"] is cands[j]]
        means.append(rows[j].items["mean_test_m"])
    b = s.attrs["best_index_"]
    gib = g["scoring"].attrs["greater_is_better"]
    best_mean = ops.arr_from_items(means, dtype="real").fn(b) if n > 1 else means[0]
    conds.append(And(Z(b) >= 0, Z(b) < n) if ops.is_sym(b) else (0 <= b < n))
    for j in range(n):
        conds.append((ops.as_real(best_mean) >= ops.as_real(means[j])) if gib else (ops.as_real(best_mean) <= ops.as_real(means[j])))
    conds.append(Eq(s.attrs["best_score_"], best_mean))
    for j in range(n):
        conds.append(Implies(Eq(b, j), s.attrs["best_params_"] is cands[j]))
    # best forecaster: a fresh clone configured with the best parameters, fitted on the WHOLE series iff refit
    bf = s.attrs["best_forecaster_"]
    sp = [x for x in evs if x.obj is bf and x.method == "set_params"]
    fits = [x for x in evs if x.obj is bf and x.method == "fit"]
    conds += [bf is clones[n], len(sp) == 1]
    for j in range(n):
        conds.append(Implies(Eq(b, j), (sp[0].kwargs.get("p") is cands[j].items["p"]) if sp else False))
    if s.attrs["refit"]:
        conds += [len(fits) == 1, equiv(fits[0].arg(0), A.y) if fits else False, (fits[0].arg(2) is A.fh) if fits else False]
    else:
        conds.append(len(fits) == 0)
    return And(*conds)


contract(f"{TU}::BaseGridSearch.fit", "C08", cases=TU_CASES, inputs=_tu_inputs,
         pre=lambda A: valid_params(A.self.ghost["cv"]),
         raises=[("ValueError", lambda A: ws_rejects(NS(self=A.self.ghost["cv"], y=A.y.index)))],
         ensures=[("every-candidate-evaluated-once-best-is-best-in-the-metric-direction-and-refitted", _tu_post)],
         notes=["1..3 candidates (bound on the NUMBER of candidates; their parameter values are opaque); evaluate() through its C07 contract; "
                "ParameterGrid/ParameterSampler, Series.rank, argmin, DataFrame.mean: library models"])


# ----------------------------------------------------------------------------- delegation to the refitted best forecaster

def fitted_tuner(B, refit):
    obj = mk_tuner(B, 2, refit, False)
    best = abstract_forecaster(B, "best_forecaster")
    best.attrs["cutoff"] = B.int("best_cutoff")
    best.results = {"check_is_fitted": lambda I, o, ev: None}
    obj.attrs.update({"best_forecaster_": best, "_is_fitted": True, "best_index_": 0})
    return obj, best


def _deleg_post(method, argnames):
    def post(A, r):
        best = A.self.attrs["best_forecaster_"]
        evs = [e for e in trace() if e.obj is best and e.method == method]
        if len(evs) != 1:
            return False
        e = evs[0]
        ok = True
        for i, nm in enumerate(argnames):
            ok = ok and (e.arg(i, nm) is getattr(A, nm))
        return ok and ((r is A.self) if method == "update" else (r is e.result))
    return post


for _m, _args in (("predict", ["fh", "X"]), ("update", ["y", "X"])):
    contract(f"{TU}::BaseGridSearch.{_m}", "C08", cases=["refit", "norefit", "unfitted"],
             inputs=(lambda m, args: lambda B, case: (lambda ob: dict({"self": (ob[0].attrs.update({"_is_fitted": case != "unfitted"}) or ob[0])},
                                                                      **{a: B.opaque(a) for a in args}))(fitted_tuner(B, case != "norefit")))(_m, _args),
             raises=[("NotFittedError", lambda A: A.self.attrs["_is_fitted"] is False or A.self.attrs["refit"] is False)],
             ensures=[("forwards-unchanged-to-the-best-forecaster", _deleg_post(_m, _args))])

contract(f"{TU}::BaseGridSearch.cutoff", "C08,C03", cases=["refit", "norefit", "unfitted"],
         inputs=lambda B, case: (lambda ob: {"self": (ob[0].attrs.update({"_is_fitted": case != "unfitted"}) or ob[0])})(fitted_tuner(B, case != "norefit")),
         raises=[("NotFittedError", lambda A: A.self.attrs["_is_fitted"] is False or A.self.attrs["refit"] is False)],
         ensures=[("is-the-best-forecasters-current-cutoff", lambda A, r: Eq(r, A.self.attrs["best_forecaster_"].attrs["cutoff"]))],
         frame=lambda A: [A.self])

MW = "sktime/performance_metrics/forecasting/_classes.py"
from contracts.C06_metrics import _cls_inputs


def _mw_inputs(B, case):
    I = B.I
    ok, cls = I.mod_global(I.src.module("sktime.performance_metrics.forecasting._classes"), "_MetricFunctionWrapper")
    from contracts.C10_update import recorder, RECV
    obj = I.instantiate(cls, [B.opaque("user_function")], {"name": "m", "greater_is_better": case == "gain"})
    RECV[0] = obj
    obj.attrs["_func"] = recorder("_func", lambda I2, ev: I2.ctx.fresh_real("metric_value"))
    return {"self": obj, "y_true": B.opaque("y_true"), "y_pred": B.opaque("y_pred")}


contract(f"{MW}::_MetricFunctionWrapper.__call__", "C08,C06", cases=["loss", "gain"], inputs=_mw_inputs,
         ensures=[("returns-the-function-value-unchanged-whatever-the-direction",
                   lambda A, r: (lambda evs: len(evs) == 1 and evs[0].arg(0) is A.y_true and evs[0].arg(1) is A.y_pred and Eq(r, evs[0].result))(
                       [e for e in trace() if e.method == "_func"]))],
         notes=["the direction (greater_is_better) is applied once, by the tuner's ranking; the wrapper must not negate"])
