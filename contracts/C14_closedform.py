"""C14: closed-form transformers -- the numeric kernels (pad, sliding windows, piecewise aggregate means, interval
features); nested-DataFrame plumbing around them is pandas and covered by the bounded tier only."""
from pyvc.spec import *   # noqa
from pyvc.values import SArr, SList, SObj, Opaque, SSeries, SFrame
from pyvc import ops
import z3
from contracts.C01_split import sym_series
from contracts.C17_classify import _panel3

PAD = "sktime/transformations/panel/padder.py"
SEG = "sktime/transformations/panel/segment.py"
PAA = "sktime/transformations/panel/dictionary_based/_paa.py"
Z = ops.to_z3


def _cur():
    from pyvc import spec as _S
    return _S.CUR


# ----------------------------------------------------------------------------- padding
def _pad_inputs(B, case):
    I = B.I
    ok, cls = I.mod_global(I.src.module("sktime.transformations.panel.padder"), "PaddingTransformer")
    obj = SObj(cls)
    obj.attrs.update(_is_fitted=True, pad_length=None, pad_length_=B.int("pad_length_", 0), fill_value=B.real("fill_value"))
    return {"self": obj, "series": sym_series(B)}


def _pad_post(A, r):
    s = A.series
    m, P, fill = s.index.len, A.self.attrs["pad_length_"], A.self.attrs["fill_value"]
    return And(Eq(r.len, P), ForAll(lambda i: Eq(r.fn(i), If(Z(i) < Z(m), s.values.fn(i), fill)), 0, P, "i"))


contract(f"{PAD}::PaddingTransformer._create_pad", "C14,C12", cases=["-"], inputs=_pad_inputs,
         pre=lambda A: Z(A.series.index.len) <= Z(A.self.attrs["pad_length_"]),      # transform rejects longer series before calling
         ensures=[("series-then-fill-value-up-to-the-pad-length", _pad_post)], frame=lambda A: [A.self, A.series])


# ----------------------------------------------------------------------------- sliding window segmentation
def _sw_inputs(B, case):
    I = B.I
    ok, cls = I.mod_global(I.src.module("sktime.transformations.panel.segment"), "SlidingWindowSegmenter")
    obj = SObj(cls)
    w = B.int("window_length") if case != "not-int" else B.real("window_length")
    obj.attrs.update(_is_fitted=True, window_length=w)
    X = _panel3(B)
    obj.ghost = dict(X=X, w=w)
    return {"self": obj, "X": X, "y": None}


def _sw_cell(A, i, t, j):
    """window t of instance i: the w observations centred at t (edge values repeated beyond both ends)"""
    X, w = A.self.ghost["X"], Z(A.self.ghost["w"])
    T = Z(X.shape[2])
    p = w / 2                                   # floor(w / 2)
    q = Z(t) + Z(j) - p
    return X.fn(i, 0, ops.simp(z3.If(q < 0, 0, z3.If(q > T - 1, T - 1, q))))


def _sw_inv_pad(S):
    A = S.A
    X, w = A.self.ghost["X"], Z(A.self.ghost["w"])
    n, T = X.shape[0], Z(X.shape[2])
    p = w / 2
    P = S.padded_data
    return And(Eq(P.shape[0], n), Eq(P.shape[1], ops.simp(T + 2 * p)), Eq(S.pad_amnt, ops.simp(p)),
               ForAll(lambda i: ForAll(lambda q: Eq(P.fn(i, q), X.fn(i, 0, ops.simp(z3.If(Z(q) - p < 0, 0, z3.If(Z(q) - p > T - 1, T - 1, Z(q) - p))))),
                                       0, ops.simp(T + 2 * p), "q"), 0, S.k, "i"))


def _sw_inv_sub(S):
    A = S.A
    X, w = A.self.ghost["X"], A.self.ghost["w"]
    n, T = X.shape[0], X.shape[2]
    sub = S.subsequences
    full_pad = _sw_inv_pad(NS(dict(S.__dict__, k=n)))
    return And(full_pad, Eq(sub.shape[0], n), Eq(sub.shape[1], T), Eq(sub.shape[2], w),
               ForAll(lambda i: ForAll(lambda t: ForAll(lambda j: Eq(sub.fn(i, t, j), _sw_cell(A, i, t, j)), 0, w, "j"), 0, T, "t"), 0, S.k, "i"))


def _sw_sub_done(S):
    A = S.A
    X, w = A.self.ghost["X"], A.self.ghost["w"]
    n, T = X.shape[0], X.shape[2]
    sub = S.subsequences
    return And(Eq(sub.shape[0], n), Eq(sub.shape[1], T), Eq(sub.shape[2], w),
               ForAll(lambda i: ForAll(lambda t: ForAll(lambda j: Eq(sub.fn(i, t, j), _sw_cell(A, i, t, j)), 0, w, "j"), 0, T, "t"), 0, n, "i"))


def _sw_inv_inner(S):
    inst = S.inst
    A = S.A
    X, w = A.self.ghost["X"], A.self.ghost["w"]
    T = X.shape[2]
    return And(_sw_sub_done(S), Z(S.i) >= 0, Z(S.i) < Z(X.shape[0]), Eq(inst.shape[0], T), Eq(inst.shape[1], w),
               ForAll(lambda t: ForAll(lambda j: Eq(inst.fn(t, j), _sw_cell(A, S.i, t, j)), 0, w, "j"), 0, T, "t"))


def _acc_havoc(I, S):
    n = I.ctx.fresh_int("len(data)")
    I.ctx.assume(n >= 0)
    o = Opaque("accumulated list")
    o.listlen = n
    o.appended = []
    o.opaque_methods = {"append": lambda I2, recv, a, kw: o.appended.append(a[0])}
    return o


def _sw_inner_events(S, evs):
    """inner iteration j of instance i appends ONE series: window j of that instance"""
    d = S.data
    app = d.appended if isinstance(d, Opaque) else d.items
    if len(app) != 1 or not isinstance(app[0], SSeries):
        return False
    s = app[0]
    w = S.A.self.ghost["w"]
    return And(Eq(s.index.len, w), ForAll(lambda q: Eq(s.values.fn(q), _sw_cell(S.A, S.i, S.k, q)), 0, w, "q"))


def _sw_outer_events(S, evs):
    """outer iteration i stores the list built by the inner loop as column i"""
    st = [e for e in evs if e.method == "table.setitem"]
    if len(st) != 1:
        return False
    idx, v = st[0].args
    return And(Eq(idx, S.k), (v is S.data))


contract(f"{SEG}::SlidingWindowSegmenter.transform", "C14,C16,C12", cases=["-", "not-int"], inputs=_sw_inputs,
         raises=[("ValueError", lambda A: Or(Z(A.X.shape[1]) > 1, And(ops.is_intlike(A.self.attrs["window_length"]), A.self.attrs["window_length"] <= 0))),
                 ("TypeError", lambda A: And(Z(A.X.shape[1]) <= 1, not ops.is_intlike(A.self.attrs["window_length"])))],
         invariants={0: _sw_inv_pad, 1: _sw_inv_sub, 2: _sw_sub_done, 3: _sw_inv_inner},
         events={2: _sw_outer_events, 3: _sw_inner_events}, loop_havoc={2: {"data": _acc_havoc}, 3: {"data": _acc_havoc}},
         ensures=[("result-is-the-transposed-table-of-per-instance-columns",
                   lambda A, r: isinstance(r, Opaque) and r.prov is not None and r.prov[0] == "transpose")],
         frame=lambda A: [A.self, A.X],
         notes=["windows are read through np.lib.stride_tricks.as_strided: a view reaching beyond the padded buffer is modelled as an error, "
                "so the proof includes memory safety of the strided view",
                "DataFrame assembly: column i = list of n_timepoints series (window j at position j), result = table transposed "
                "(pandas side: recorded events only)"])


# ----------------------------------------------------------------------------- fixed-interval segmentation
DP = "sktime/utils/data_processing.py"


def _iseg_inputs(B, case):
    I = B.I
    m = int(case)
    ok, cls = I.mod_global(I.src.module("sktime.transformations.panel.segment"), "IntervalSegmenter")
    obj = SObj(cls)
    X = _panel3(B)
    T = X.shape[2]
    ivs = []
    for q in range(m):
        a, b = B.int(f"start{q}", 0), B.int(f"end{q}", 0)
        B.assume(And(a < b, b <= Z(T)))
        ivs.append(SArr((2,), (lambda a_, b_: (lambda i: If(Eq(i, 0), a_, b_)))(a, b), "int", "ndarray"))
    obj.attrs.update(_is_fitted=True, intervals=m, intervals_=SList(ivs, "list"), input_shape_=SList([X.shape[0], 1, T], "tuple"))
    obj.ghost = dict(X=X, ivs=ivs)
    return {"self": obj, "X": X, "y": None}


_concat_args = []


def _concat_assumed(A):
    o = Opaque("nested frame of the interval blocks", prov=("concat_nested", A.arrs))
    o.setattr_ok = True
    return o


contract(f"{DP}::_concat_nested_arrays", "C14", cases=["-"], assumed=True, inputs=lambda B, case: {},
         returns=_concat_assumed,
         notes=["ASSUMED: _concat_nested_arrays(blocks) has one nested column per block, row i of column k = row i of block k as a series "
                "(pandas; compared cell by cell by the bounded tier)"])

contract(f"{DP}::_get_column_names", "C14", cases=["-"], assumed=True, inputs=lambda B, case: {},
         returns=lambda A: SList(["var_0"], "list") if isinstance(A.X, SArr) else Opaque("column names"),
         notes=["ASSUMED (array input): default names var_0, var_1, ..."])


def _iseg_post(A, r):
    g = A.self.ghost
    X, ivs = g["X"], g["ivs"]
    if not (isinstance(r, Opaque) and r.prov and r.prov[0] == "concat_nested"):
        return False
    blocks = r.prov[1]
    if not isinstance(blocks, SList) or len(blocks.items) != len(ivs):
        return False
    conds = []
    n = X.shape[0]
    for blk, iv in zip(blocks.items, ivs):         # block k = the columns [start_k, end_k) of every instance, in the fitted order
        a, b = iv.fn(0), iv.fn(1)
        if not isinstance(blk, SArr) or blk.ndim != 2:
            return False
        conds.append(And(Eq(blk.shape[0], n), Eq(blk.shape[1], ops.simp(Z(b) - Z(a))),
                         ForAll(lambda i: ForAll(lambda t: Eq(blk.fn(i, t), X.fn(i, 0, ops.simp(Z(a) + Z(t)))), 0, ops.simp(Z(b) - Z(a)), "t"), 0, n, "i")))
    names = r.attrs.get("columns") if getattr(r, "attrs", None) else None
    return And(*conds)


contract(f"{SEG}::IntervalSegmenter.transform", "C14,C16,C12", cases=["1", "2", "3"], inputs=_iseg_inputs,
         raises=[("ValueError", lambda A: Z(A.X.shape[1]) > 1)],
         ensures=[("block-k-is-the-fitted-interval-k-of-every-instance", _iseg_post)],
         frame=lambda A: [A.self, A.X],
         notes=["1..3 fitted intervals (bound on the NUMBER only; end points symbolic)"])


def _isegfit_inputs(B, case):
    I = B.I
    m = int(case)
    ok, cls = I.mod_global(I.src.module("sktime.transformations.panel.segment"), "IntervalSegmenter")
    obj = I.instantiate(cls, [], {"intervals": m})
    X = _panel3(B)
    return {"self": obj, "X": X, "y": None}


def _isegfit_post(A, r):
    m = A.self.attrs["intervals"]
    T = Z(A.X.shape[2])
    ivs = A.self.attrs.get("intervals_")
    if not isinstance(ivs, SList) or len(ivs.items) != m:
        return False
    q, rem = T / m, T % m
    conds = [A.self.attrs.get("_is_fitted") is True, r is A.self]
    for k, iv in enumerate(ivs.items):          # consecutive blocks covering 0..T, sizes differ by at most one, longer ones first
        start = k * q + z3.If(rem < k, rem, k)
        size = q + z3.If(k < rem, 1, 0)
        conds.append(And(Eq(iv.len, 2), Eq(iv.fn(0), ops.simp(start)), Eq(iv.fn(1), ops.simp(start + size))))
    return And(*conds)


contract(f"{SEG}::IntervalSegmenter.fit", "C14", cases=["1", "2", "3"], inputs=_isegfit_inputs,
         raises=[("ValueError", lambda A: Or(Z(A.X.shape[1]) > 1, A.self.attrs["intervals"] > Z(A.X.shape[2]) / 2))],
         ensures=[("equal-consecutive-intervals-covering-the-series", _isegfit_post)], frame=lambda A: [A.X],
         notes=["1..3 intervals; np.array_split model: first T mod m sections are one longer"])


# ----------------------------------------------------------------------------- column-wise application of a wrapped tabular transformer
AD = "sktime/transformations/series/adapt.py"


def _adapt_inputs(method):
    def inputs(B, case):
        I = B.I
        ok, cls = I.mod_global(I.src.module("sktime.transformations.series.adapt"), "TabularToSeriesAdaptor")
        obj = SObj(cls)
        Zs = sym_series(B)
        n = Zs.index.len
        R = B.arr("R", dtype="real", shape=[n, 1])
        tr = B.abstract("fitted_tabular_transformer")
        tr.results = {method: lambda I2, o, ev: R}
        conf = B.abstract("configured_tabular_transformer")
        obj.attrs.update(_is_fitted=True, transformer=conf, transformer_=tr)
        obj.ghost = dict(R=R, tr=tr, Z=Zs, method=method)
        return {"self": obj, "Z": Zs, "X": None}
    return inputs


def _adapt_post(A, r):
    g = A.self.ghost
    Zs, R = g["Z"], g["R"]
    n = Zs.index.len
    from contracts.C07_evaluate import trace
    evs = [e for e in trace() if e.obj is not None]
    if len(evs) != 1 or evs[0].obj is not g["tr"] or evs[0].method != g["method"] or len(evs[0].args) != 1:
        return False
    a = evs[0].arg(0)
    if not isinstance(a, SArr) or a.ndim != 2 or not isinstance(r, SSeries):
        return False
    return And(Eq(a.shape[0], n), Eq(a.shape[1], 1), ForAll(lambda i: Eq(a.fn(i, 0), Zs.values.fn(i)), 0, n, "i"),      # the series as ONE column
               equiv(r.index, Zs.index), Eq(r.values.len, n), ForAll(lambda i: Eq(r.values.fn(i), R.fn(i, 0)), 0, n, "i"))


for _m in ("transform", "inverse_transform"):
    contract(f"{AD}::TabularToSeriesAdaptor.{_m}", "C14,C12,C13", cases=["-"], inputs=_adapt_inputs(_m),
             ensures=[("wrapped-transformer-applied-to-the-series-as-one-column-result-keeps-the-index", _adapt_post, {"modular": False})],
             frame=lambda A: [A.self, A.Z],
             notes=["univariate series; the fitted sklearn-like transformer is abstract (returns an arbitrary (n, 1) array)"])


# ----------------------------------------------------------------------------- piecewise aggregate approximation (fractional frames)
def _paa_inputs(B, case):
    I = B.I
    ok, cls = I.mod_global(I.src.module("sktime.transformations.panel.dictionary_based._paa"), "PAA")
    obj = SObj(cls)
    m = B.int("num_intervals", 1)
    n = B.int("num_insts", 0)
    L = B.int("num_atts", 1)
    B.assume(m <= L)                                     # _check_parameters (called by transform before) rejects the rest
    X2 = B.arr("X2", dtype="real", shape=[n, L])         # the tabular view of the nested column
    P = z3.Function("prefix", z3.IntSort(), z3.IntSort(), z3.RealSort())          # P(i, q) = X2[i, 0] + ... + X2[i, q - 1]
    B.I.ctx.inputs["prefix"] = P
    i_, q_ = z3.Int("pi"), z3.Int("pq")
    B.assume(z3.ForAll([i_], P(i_, 0) == 0))
    B.assume(z3.ForAll([i_, q_], z3.Implies(z3.And(q_ >= 0, q_ < L), P(i_, q_ + 1) == P(i_, q_) + Z(X2.fn(i_, q_)))))
    ell = z3.ToReal(L) / z3.ToReal(m)
    B.hint("frame-length-at-least-one", ell >= 1)
    # frame boundaries bnd(f) = f * l as a ghost function given by its LINEAR characterisation; the lemma
    # C14/paa-frame-boundaries shows that f * l satisfies exactly these axioms
    Bd = z3.Function("bnd", z3.IntSort(), z3.RealSort())
    B.I.ctx.inputs["bnd"] = Bd
    f_, g_ = z3.Int("bf"), z3.Int("bg")
    B.assume(Bd(0) == 0)
    B.assume(z3.ForAll([f_], Bd(f_ + 1) == Bd(f_) + ell))
    B.assume(Bd(m) == z3.ToReal(L))
    B.assume(z3.ForAll([f_, g_], z3.Implies(f_ < g_, Bd(f_) < Bd(g_))))
    obj.attrs.update(_is_fitted=True, num_intervals=m)
    nested = B.opaque("nested column")
    obj.ghost = dict(X2=X2, P=P, m=m, L=L, n=n, nested=nested, Bd=Bd)
    return {"self": obj, "X": nested}


contract(f"{DP}::from_nested_to_2d_array", "C14", cases=["-"], assumed=True, inputs=lambda B, case: {},
         applicable=lambda A: isinstance(A.X, Opaque) and _paa_ghost() is not None and A.X is _paa_ghost()["nested"],
         returns=lambda A: _paa_ghost()["X2"],
         notes=["ASSUMED (PAA): from_nested_to_2d_array(column, return_numpy=True) is the (instances x time points) table of the column "
                "(bounded tier: C15)"])


def _paa_ghost():
    a = getattr(_cur(), "root_args", None)
    s = getattr(a, "self", None) if a is not None else None
    return getattr(s, "ghost", None)


def _W(g, i, t):
    """mass of series i on [0, t): whole cells before t plus the covered fraction of the cell t falls into"""
    P, X2 = g["P"], g["X2"]
    # cell that contains the point just BEFORE t (k = ceil(t) - 1): the same continuous piecewise-linear function as with
    # floor(t), but a frame end t = n + r with 0 < r <= 1 always falls into cell n (no case distinction r < 1 / r = 1)
    k = -z3.ToInt(-t) - 1
    return z3.If(t <= 0, z3.RealVal(0), P(Z(i), k) + (t - z3.ToReal(k)) * Z(X2.fn(i, k)))


def _paa_mean(g, i, f, ell):
    """frame f of series i: mean of the step function over [f * ell, (f + 1) * ell)"""
    a, b = g["Bd"](Z(f)), g["Bd"](Z(f) + 1)
    return (_W(g, i, b) - _W(g, i, a)) / ell


def _paa_inner_inv(S):
    g = S.A.self.ghost
    ell = Z(S.frame_length)
    L, m = g["L"], g["m"]
    i = S.i
    cf, cs, fs = Z(S.current_frame), Z(S.current_frame_size), Z(S.frame_sum)
    k = Z(S.k)
    fr = S.frames
    start = z3.ToReal(k) - cs                                     # where the current frame begins (= bnd(current_frame))
    base = [Eq(S.frame_length, z3.ToReal(L) / z3.ToReal(m)), Z(i) >= 0, Z(i) < Z(g["n"]), S.series.len is L or Eq(S.series.len, L),
            ForAll(lambda q: Eq(S.series.fn(q), g["X2"].fn(i, q)), 0, L, "q"),
            cf >= 0, cs >= 0, cs < ell, start == g["Bd"](cf), fs == g["P"](Z(i), k) - _W(g, i, start)]
    if isinstance(fr, SList):
        return And(*base, len(fr.items) == 0, cf == 0)
    return And(*base, Eq(fr.len, cf), ForAll(lambda f: Eq(fr.fn(f), _paa_mean(g, i, f, ell)), 0, cf, "f"))


def _paa_frames_havoc(I, S):
    nfr = I.ctx.fresh_int("len(frames)")
    I.ctx.assume(nfr >= 0)
    f = I.ctx.fresh_fun("frames", z3.IntSort(), z3.RealSort())
    return SArr((nfr,), lambda j: f(Z(j)), "real", "list")


def _paa_outer_events(S, evs):
    """instance i contributes ONE series of exactly num_intervals means, frame f = mean over [f * l, (f + 1) * l)"""
    g = S.A.self.ghost
    d = S.data
    app = d.appended if isinstance(d, Opaque) else d.items
    if len(app) != 1 or not isinstance(app[0], SSeries):
        return False
    s = app[0]
    ell = z3.ToReal(g["L"]) / z3.ToReal(g["m"])
    return And(Eq(s.values.len, g["m"]), ForAll(lambda f: Eq(s.values.fn(f), _paa_mean(g, S.k, f, ell)), 0, g["m"], "f"))


contract(f"{PAA}::PAA._perform_paa_along_dim", "C14,C16", cases=["-"], inputs=_paa_inputs,
         invariants={0: lambda S: True, 1: _paa_inner_inv}, events={0: _paa_outer_events},
         loop_havoc={0: {"data": _acc_havoc}, 1: {"frames": _paa_frames_havoc}},
         ensures=[("one-column-holding-the-per-instance-series",
                   lambda A, r: len([e for e in __import__("contracts.C07_evaluate", fromlist=["trace"]).trace() if e.method == "table.setitem"]) == 1,
                   {"modular": False})],
         frame=lambda A: [A.self],
         notes=["frame length l = num_atts / num_intervals may be fractional; the series is read as a step function, prefix(i, q) is its "
                "running sum (recursive ghost function); exact real arithmetic -- the 'last frame lost due to double imprecision' branch is "
                "floating-point behaviour and is not decided"])


@lemma("C14/paa-frame-boundaries", "C14", uses=[f"{PAA}::PAA._perform_paa_along_dim"])
def _paa_boundaries(B):
    """bnd(f) = f * l with l = L / m satisfies the four axioms the PAA contract assumes about the ghost function bnd
    (and bnd(0) = 0 with the recurrence determines bnd on the naturals), so the contract speaks about the frames
    [f * l, (f + 1) * l)"""
    L, m = B.int("L", 1), B.int("m", 1)
    B.assume(m <= L)
    ell = z3.ToReal(L) / z3.ToReal(m)
    f, g = B.int("f"), B.int("g")
    bnd = lambda x: z3.ToReal(x) * ell
    return [("bnd(0)=0", bnd(z3.IntVal(0)) == 0), ("recurrence", bnd(f + 1) == bnd(f) + ell), ("tiles-the-series", bnd(m) == z3.ToReal(L)),
            ("strictly-increasing", Implies(f < g, bnd(f) < bnd(g))), ("frame-length-at-least-one", ell >= 1)]


# ----------------------------------------------------------------------------- padding / truncation of panels with UNEQUAL lengths
TRUNC = "sktime/transformations/panel/truncation.py"
VAL_PANEL = "sktime/utils/validation/panel.py"


def nested_frame(B, name="X"):
    """abstract nested DataFrame: n instances x c columns, cell (i, j) is a series of its OWN length len_ij with arbitrary values.
    Supports what the padder / truncator use: X.shape, X.iloc[i, :].values"""
    n, c = B.int("n_instances", 1), B.int("n_columns", 1)
    Lc = z3.Function("cell_length", z3.IntSort(), z3.IntSort(), z3.IntSort())
    V = z3.Function("cell_value", z3.IntSort(), z3.IntSort(), z3.IntSort(), z3.RealSort())
    B.I.ctx.inputs["cell_length"] = Lc
    B.I.ctx.inputs["cell_value"] = V
    i_, j_ = z3.Int("ci"), z3.Int("cj")
    B.assume(z3.ForAll([i_, j_], Lc(i_, j_) >= 0))

    def cell(i, j):
        ln = Lc(Z(i), Z(j))
        return SSeries(SArr((ln,), lambda t: t, "int", "RangeIndex", closed=(0, 1)),
                       SArr((ln,), lambda t: V(Z(i), Z(j), Z(t)), "real", "ndarray"))
    X = Opaque("nested frame " + name)

    def iloc_get(I, o, idx):
        if not (isinstance(idx, SList) and idx.kind == "tuple" and len(idx.items) == 2):
            raise Undecided("nested frame: only X.iloc[i, :] is modelled")
        i, sl = idx.items
        row = Opaque("row of the nested frame", prov=("row", X, i))
        row.attrs = {"values": SArr((c,), lambda j: cell(i, j), "obj", "ndarray")}
        return row
    ix = Opaque("iloc")
    ix.getitem = iloc_get
    X.attrs = {"shape": SList([n, c], "tuple"), "iloc": ix}
    X.ghost = dict(n=n, c=c, Lc=Lc, V=V, cell=cell)
    return X


def _root_ghost(key):
    a = getattr(_cur(), "root_args", None)
    s = getattr(a, "self", None) if a is not None else None
    g = getattr(s, "ghost", None)
    return g.get(key) if isinstance(g, dict) else None


contract(f"{VAL_PANEL}::check_X", "C14", cases=["-"], assumed=True, inputs=lambda B, case: {},
         applicable=lambda A: isinstance(A.X, Opaque) and isinstance(getattr(A.X, "ghost", None), dict) and "Lc" in A.X.ghost,
         returns=lambda A: A.X,
         notes=["ASSUMED (nested-frame input): check_X(X, coerce_to_pandas=True) accepts a nested DataFrame with at least one instance and "
                "column and returns it unchanged"])

contract(f"{PAD}::_get_max_length", "C14", cases=["-"], assumed=True, inputs=lambda B, case: {},
         applicable=lambda A: _root_ghost("MAXLEN") is not None,
         returns=lambda A: _root_ghost("MAXLEN"),
         notes=["ASSUMED: _get_max_length(rows) is the largest cell length of the panel (nested max over map objects; bounded tier)"])

contract(f"{TRUNC}::TruncationTransformer.get_min_length", "C14", cases=["-"], assumed=True, inputs=lambda B, case: {},
         applicable=lambda A: _root_ghost("MINLEN") is not None,
         returns=lambda A: _root_ghost("MINLEN"),
         notes=["ASSUMED: get_min_length(rows) is the smallest cell length of the panel (bounded tier)"])


def _extreme(B, X, name, is_max):
    g = X.ghost
    m = B.int(name, 0)
    i_, j_ = z3.Int("ei"), z3.Int("ej")
    rng = z3.And(i_ >= 0, i_ < Z(g["n"]), j_ >= 0, j_ < Z(g["c"]))
    B.assume(z3.ForAll([i_, j_], z3.Implies(rng, g["Lc"](i_, j_) <= m if is_max else g["Lc"](i_, j_) >= m)))
    wi, wj = B.int(name + "_at_i", 0), B.int(name + "_at_j", 0)          # attained somewhere
    B.assume(And(wi < Z(g["n"]), wj < Z(g["c"]), g["Lc"](wi, wj) == m))
    return m


def _padt_inputs(B, case):
    I = B.I
    ok, cls = I.mod_global(I.src.module("sktime.transformations.panel.padder"), "PaddingTransformer")
    obj = SObj(cls)
    X = nested_frame(B)
    P = B.int("pad_length_", 0)
    obj.attrs.update(_is_fitted=True, pad_length=None, pad_length_=P, fill_value=B.real("fill_value"))
    obj.ghost = dict(X=X, MAXLEN=_extreme(B, X, "max_length", True), P=P)
    return {"self": obj, "X": X, "y": None}


def _cellwise(A, r, spec_len, spec_val):
    """r = DataFrame(rows); row i is a Series of c cells; cell (i, j) has the specified length and values"""
    g = A.X.ghost
    if not (isinstance(r, Opaque) and r.prov and r.prov[0] == "rows" and isinstance(r.prov[1], SArr)):
        return False
    rows = r.prov[1]
    ctx = _cur().ctx
    i, j = ctx.fresh_int("inst"), ctx.fresh_int("col")
    ctx.assume(And(i >= 0, i < Z(g["n"]), j >= 0, j < Z(g["c"])))
    row = rows.fn(i)
    if not isinstance(row, SSeries):
        return False
    cell = row.values.fn(j)
    vals = cell.values if isinstance(cell, SSeries) else cell
    if not isinstance(vals, SArr) or vals.ndim != 1:
        return False
    ln = spec_len(i, j)
    return And(Eq(rows.len, g["n"]), Eq(row.values.len, g["c"]), Eq(vals.len, ln),
               ForAll(lambda t: Eq(vals.fn(t), spec_val(i, j, t)), 0, ln, "t"))


def _padt_post(A, r):
    g = A.X.ghost
    P, fill = A.self.attrs["pad_length_"], A.self.attrs["fill_value"]
    return _cellwise(A, r, lambda i, j: P, lambda i, j, t: z3.If(Z(t) < g["Lc"](i, j), g["V"](i, j, Z(t)), Z(fill)))


contract(f"{PAD}::PaddingTransformer.transform", "C14,C16,C12", cases=["-"], inputs=_padt_inputs,
         raises=[("ValueError", lambda A: Z(A.self.ghost["MAXLEN"]) > Z(A.self.attrs["pad_length_"]))],
         ensures=[("every-cell-padded-to-the-fitted-length-own-values-then-fill-value", _padt_post)],
         frame=lambda A: [A.self, A.X],
         notes=["unequal-length panel: every cell has its own symbolic length; one row per instance in input order, one cell per column"])


def _padfit_inputs(B, case):
    I = B.I
    ok, cls = I.mod_global(I.src.module("sktime.transformations.panel.padder"), "PaddingTransformer")
    given = case == "given"
    obj = I.instantiate(cls, [], {"pad_length": B.int("pad_length", 0) if given else None, "fill_value": B.real("fill_value")})
    X = nested_frame(B)
    obj.ghost = dict(X=X, MAXLEN=_extreme(B, X, "max_length", True))
    return {"self": obj, "X": X, "y": None}


contract(f"{PAD}::PaddingTransformer.fit", "C14", cases=["longest", "given"], inputs=_padfit_inputs,
         ensures=[("pad-length-is-the-requested-or-the-longest-length",
                   lambda A, r: And(r is A.self, A.self.attrs.get("_is_fitted") is True,
                                    Eq(A.self.attrs["pad_length_"], A.self.attrs["pad_length"] if A.self.attrs["pad_length"] is not None else A.self.ghost["MAXLEN"])))],
         frame=lambda A: [A.X])


def _trt_inputs(B, case):
    I = B.I
    ok, cls = I.mod_global(I.src.module("sktime.transformations.panel.truncation"), "TruncationTransformer")
    obj = SObj(cls)
    X = nested_frame(B)
    lo = B.int("lower_", 0)
    up = B.int("upper", 0) if case == "range" else None
    obj.attrs.update(_is_fitted=True, lower=lo, lower_=lo, upper=up, min_length=lo)
    obj.ghost = dict(X=X, MINLEN=_extreme(B, X, "min_length", False))
    return {"self": obj, "X": X, "y": None}


def _trt_post(A, r):
    g = A.X.ghost
    lo, up = Z(A.self.attrs["lower_"]), A.self.attrs["upper"]
    if up is None:
        return _cellwise(A, r, lambda i, j: ops.simp(lo), lambda i, j, t: g["V"](i, j, Z(t)))
    ln = ops.simp(z3.If(Z(up) - lo > 0, Z(up) - lo, 0))
    return _cellwise(A, r, lambda i, j: ln, lambda i, j, t: g["V"](i, j, ops.simp(lo + Z(t))))


contract(f"{TRUNC}::TruncationTransformer.transform", "C14,C16,C12", cases=["first-k", "range"], inputs=_trt_inputs,
         pre=lambda A: True if A.self.attrs["upper"] is None else Z(A.self.attrs["upper"]) <= Z(A.self.ghost["MINLEN"]),
         raises=[("ValueError", lambda A: Z(A.self.ghost["MINLEN"]) < Z(A.self.attrs["lower_"]))],
         ensures=[("every-cell-cut-to-the-fitted-range", _trt_post)],
         frame=lambda A: [A.self, A.X],
         notes=["unequal-length panel; with `upper` the requested range must lie inside the shortest series (otherwise pandas raises "
                "IndexError -- not part of the contract's domain)"])


# ----------------------------------------------------------------------------- tabularisation / column concatenation (3-d array input)
RED = "sktime/transformations/panel/reduce.py"
PCOMP = "sktime/transformations/panel/compose.py"


def _tab_inputs(module, clsname):
    def inputs(B, case):
        I = B.I
        ok, cls = I.mod_global(I.src.module(module), clsname)
        obj = SObj(cls)
        obj.attrs.update(_is_fitted=True)
        return {"self": obj, "X": _panel3(B), "y": None}
    return inputs


def _ctt(A, table):
    """cell (i, c * T + t) of the table is X[i, c, t]: column-then-time order, one row per instance"""
    X = A.X
    n, C, T = X.shape
    if not isinstance(table, SArr) or table.ndim != 2:
        return False
    ctx = _cur().ctx
    i, c, t = ctx.fresh_int("i"), ctx.fresh_int("c"), ctx.fresh_int("t")
    ctx.assume(And(i >= 0, i < Z(n), c >= 0, c < Z(C), t >= 0, t < Z(T)))
    return And(Eq(table.shape[0], n), Eq(table.shape[1], ops.simp(Z(C) * Z(T))), Eq(table.fn(i, ops.simp(c * Z(T) + t)), X.fn(i, c, t)))


contract(f"{RED}::Tabularizer.transform", "C14,C16,C12", cases=["-"], inputs=_tab_inputs("sktime.transformations.panel.reduce", "Tabularizer"),
         ensures=[("table-in-column-then-time-order-one-row-per-instance", lambda A, r: _ctt(A, r))], frame=lambda A: [A.self, A.X],
         notes=["3-d array input (the nested-DataFrame input goes through from_nested_to_2d_array: pandas, bounded tier)"])

contract(f"{PCOMP}::ColumnConcatenator.transform", "C14,C16,C12", cases=["-"],
         inputs=_tab_inputs("sktime.transformations.panel.compose", "ColumnConcatenator"),
         ensures=[("one-nested-column-holding-the-columns-one-after-the-other-in-time",
                   lambda A, r: isinstance(r, Opaque) and r.prov is not None and r.prov[0] == "nested" and _ctt(A, r.prov[1]))],
         frame=lambda A: [A.self, A.X],
         notes=["3-d array input; from_2d_array_to_nested (row i -> one series cell) is an assumed contract"])


# ----------------------------------------------------------------------------- summary features of the fitted random intervals
EXT = "sktime/transformations/panel/summarize/_extract.py"


def _rife_inputs(B, case):
    I = B.I
    nf, nq = (int(x) for x in case.split("|")[0].split("x"))
    ok, cls = I.mod_global(I.src.module("sktime.transformations.panel.summarize._extract"), "RandomIntervalFeatureExtractor")
    obj = SObj(cls)
    X = _panel3(B)
    n, T = X.shape[0], X.shape[2]
    feats, outs = [], {}
    for f in range(nf):
        fn = B.abstract(f"feature{f}")
        fn.attrs["__name__"] = f"feature{f}"
        feats.append(fn)
    ivs = []
    for q in range(nq):
        a, b = B.int(f"start{q}", 0), B.int(f"end{q}", 0)
        B.assume(And(a < b, b <= Z(T)))
        ivs.append(SArr((2,), (lambda a_, b_: (lambda i: If(Eq(i, 0), a_, b_)))(a, b), "int", "ndarray"))
    calls = []

    noaxis = case.endswith("|noaxis")

    def mk(fi):
        def call(I2, o, ev):
            if noaxis and "axis" in ev.kwargs:
                # a plain python feature function: rejects the keyword, the transformer falls back to np.apply_along_axis
                from pyvc.ctx import SymRaise
                from pyvc.values import ExcVal, ExtClass
                raise SymRaise(ExcVal(ExtClass("builtins.TypeError"), (f"feature{fi}() got an unexpected keyword argument 'axis'",)))
            k = len([c for c in calls if c[0] == fi])
            R = outs.setdefault((fi, k), B.arr(f"R_{fi}_{k}", dtype="real", shape=[n, 1]))
            calls.append((fi, k, ev))
            return R
        return call
    for fi, fn in enumerate(feats):
        fn.results = {"__call__": mk(fi)}
    obj.attrs.update(_is_fitted=True, features=SList(feats, "list"), intervals_=SList(ivs, "list"), input_shape_=SList([n, 1, T], "tuple"),
                     n_intervals=nq, random_state=B.opaque("random_state"))
    obj.ghost = dict(X=X, feats=feats, ivs=ivs, outs=outs, calls=calls, nf=nf, nq=nq, noaxis=noaxis)
    return {"self": obj, "X": X, "y": None}


def _rife_fallback_post(A, r):
    """feature functions without an `axis` keyword: np.apply_along_axis(feature, axis=2, window) -- on the WINDOW, not on the whole
    series -- column per (feature, interval) as before"""
    from contracts.C07_evaluate import trace
    g = A.self.ghost
    X = g["X"]
    n = X.shape[0]
    nf, nq = g["nf"], g["nq"]
    evs = [e for e in trace() if e.method == "np.apply_along_axis"]
    if len(evs) != nf * nq or not isinstance(r, SFrame):
        return False
    conds = [Eq(r.index.len, n), Eq(r.values.shape[1], nf * nq)]
    for pos, ev in enumerate(evs):
        fi, k = pos // nq, pos % nq
        f, axis, win = ev.args
        a, b = g["ivs"][k].fn(0), g["ivs"][k].fn(1)
        if f is not g["feats"][fi] or axis != 2:
            return False
        ln = ops.simp(Z(b) - Z(a))
        conds.append(And(Eq(win.shape[0], n), Eq(win.shape[1], 1), Eq(win.shape[2], ln),
                         ForAll(lambda i: ForAll(lambda t: Eq(win.fn(i, 0, t), X.fn(i, 0, ops.simp(Z(a) + Z(t)))), 0, ln, "t"), 0, n, "i"),
                         ForAll(lambda i: Eq(r.values.fn(i, pos), ev.result.fn(i, 0)), 0, n, "i")))
    return And(*conds)


def _rife_post(A, r):
    """column f * n_intervals + q holds feature f of the window [start_q, end_q) of every instance, computed by ONE call on that window"""
    g = A.self.ghost
    X = g["X"]
    n = X.shape[0]
    nf, nq = g["nf"], g["nq"]
    if len(g["calls"]) != nf * nq or not isinstance(r, SFrame):
        return False
    conds = [Eq(r.index.len, n), Eq(r.values.shape[1], nf * nq)]
    for pos, (fi, k, ev) in enumerate(g["calls"]):
        if fi != pos // nq or k != pos % nq:
            return False                          # feature-major, interval-minor order
        a, b = g["ivs"][k].fn(0), g["ivs"][k].fn(1)
        win = ev.arg(0)
        if not isinstance(win, SArr) or win.ndim != 3 or ev.kwargs.get("axis") != -1:
            return False
        ln = ops.simp(Z(b) - Z(a))
        R = g["outs"][(fi, k)]
        conds.append(And(Eq(win.shape[0], n), Eq(win.shape[1], 1), Eq(win.shape[2], ln),
                         ForAll(lambda i: ForAll(lambda t: Eq(win.fn(i, 0, t), X.fn(i, 0, ops.simp(Z(a) + Z(t)))), 0, ln, "t"), 0, n, "i"),
                         ForAll(lambda i: Eq(r.values.fn(i, pos), R.fn(i, 0)), 0, n, "i")))
    return And(*conds)


contract(f"{EXT}::RandomIntervalFeatureExtractor.transform", "C14,C16,C12", cases=["1x1", "1x2", "2x1", "2x2", "1x2|noaxis", "2x1|noaxis"],
         inputs=_rife_inputs,
         raises=[("ValueError", lambda A: Z(A.X.shape[1]) > 1)],
         ensures=[("column-per-(feature,interval)-holding-that-feature-of-that-window",
                   lambda A, r: _rife_fallback_post(A, r) if A.self.ghost["noaxis"] else _rife_post(A, r), {"modular": False})],
         frame=lambda A: [A.self, A.X],
         notes=["1..2 feature functions x 1..2 fitted intervals (bound on the NUMBERS only); feature functions are abstract callables "
                "accepting axis=-1 and returning an (n, 1) array, or (cases |noaxis) rejecting the keyword so that the np.apply_along_axis "
                "fallback runs"])
