"""C18: file formats.  Only two small protocols are decided deductively (constant-string reasoning over the AST of the real
writer and parser); round trips and cross-format equality are bounded-tier only (character-level string state machines are
outside the reach of the SMT string solvers -- DESIGN 6/C18)."""
import ast

from pyvc.spec import *   # noqa
from pyvc.source import SourceTable, find_def

IO = "sktime/utils/data_io.py"


def _writer_tags(fn):
    """(tag, unconditional?) for every header tag literal written by the writer; and per-if coverage"""
    out = []

    def tag_of(call):
        if not (isinstance(call, ast.Call) and isinstance(call.func, ast.Attribute) and call.func.attr == "write" and call.args):
            return None
        a = call.args[0]
        lit = None
        if isinstance(a, ast.Constant) and isinstance(a.value, str):
            lit = a.value
        elif isinstance(a, ast.JoinedStr) and a.values and isinstance(a.values[0], ast.Constant):
            lit = a.values[0].value
        if lit and lit.startswith("@"):
            return lit.split()[0].strip().lower()
        return None

    def walk(stmts, cond):
        for s in stmts:
            if isinstance(s, ast.Expr):
                t = tag_of(s.value)
                if t:
                    out.append((t, cond))
            elif isinstance(s, ast.If):
                walk(s.body, cond + [(id(s), True)])
                walk(s.orelse, cond + [(id(s), False)])
            elif isinstance(s, (ast.For, ast.While, ast.With, ast.Try)):
                walk(getattr(s, "body", []), cond + [(id(s), "loop")])
    walk(fn.body, [])
    return out


def _parser_tags(fn):
    tags = set()
    for n in ast.walk(fn):
        if isinstance(n, ast.Call) and isinstance(n.func, ast.Attribute) and n.func.attr == "startswith" and n.args and \
                isinstance(n.args[0], ast.Constant) and isinstance(n.args[0].value, str) and n.args[0].value.startswith("@"):
            tags.add(n.args[0].value.lower())
    return tags


def _required_by_parser(fn):
    """tags whose has_*_tag flag is tested before data is read"""
    req = set()
    flag_to_tag = {}
    # a flag `has_x_tag = True` is set in the branch guarded by line.startswith("@tag")
    for n in ast.walk(fn):
        if isinstance(n, ast.If):
            t = n.test
            tag = None
            for c in ast.walk(t):
                if isinstance(c, ast.Call) and isinstance(c.func, ast.Attribute) and c.func.attr == "startswith" and c.args and isinstance(c.args[0], ast.Constant):
                    tag = c.args[0].value.lower()
            if tag and isinstance(tag, str) and tag.startswith("@"):
                for s in ast.walk(ast.Module(body=n.body, type_ignores=[])):
                    if isinstance(s, ast.Assign) and isinstance(s.value, ast.Constant) and s.value.value is True:
                        for tg in s.targets:
                            if isinstance(tg, ast.Name) and tg.id.startswith("has_") and tg.id.endswith("_tag"):
                                flag_to_tag.setdefault(tg.id, tag)
    for n in ast.walk(fn):
        if isinstance(n, ast.BoolOp) and isinstance(n.op, ast.Or) and all(isinstance(v, ast.UnaryOp) and isinstance(v.op, ast.Not) for v in n.values):
            names = [v.operand.id for v in n.values if isinstance(v.operand, ast.Name)]
            if names and all(x in flag_to_tag for x in names):
                req |= {flag_to_tag[x] for x in names}
    return req


@lemma("C18/ts-header-tag-protocol", "C18", uses=[f"{IO}::write_dataframe_to_tsfile", f"{IO}::load_from_tsfile_to_dataframe"],
       notes=["decided by constant-string reasoning over the real AST: tag literals of the writer vs. startswith constants of the parser"])
def _tags(B):
    src = SourceTable()
    tree = src.module_by_path(IO).tree
    w = find_def(tree, "write_dataframe_to_tsfile")
    p = find_def(tree, "load_from_tsfile_to_dataframe")
    if w is None or p is None:
        from pyvc.ctx import Undecided
        raise Undecided("writer / parser not found")
    wt = _writer_tags(w)
    pt = _parser_tags(p)
    req = _required_by_parser(p)
    goals = []
    goals.append(("writer-emits-tags", len(wt) >= 5))
    goals.append(("parser-requires-a-full-set-of-metadata", len(req) >= 4))
    # the parser's dispatch chain `if line.startswith("@problemname") ... elif ... elif data_started:` has no final else:
    # a header line it does not know is ignored as long as it comes before @data
    chain_open = False
    for n in ast.walk(p):
        if isinstance(n, ast.If):
            t0 = [c for c in ast.walk(n.test) if isinstance(c, ast.Constant) and c.value == "@problemname"]
            if t0:
                cur = n
                while len(cur.orelse) == 1 and isinstance(cur.orelse[0], ast.If):
                    cur = cur.orelse[0]
                chain_open = len(cur.orelse) == 0
    order = [t for (t, c) in wt]
    data_pos = order.index("@data") if "@data" in order else -1
    for pos, (t, cond) in enumerate(wt):
        understood = t in pt
        ignored = chain_open and 0 <= pos < data_pos
        goals.append((f"tag-{t}-is-understood-or-provably-ignored-by-the-parser", understood or ignored))
    # every tag the parser requires before data is written on EVERY writer path: unconditionally, or in both branches of an if
    for t in sorted(req):
        sites = [c for (tt, c) in wt if tt == t]
        uncond = any(len(c) == 0 for c in sites)
        both = False
        for c in sites:
            if len(c) == 1 and c[0][1] is True:
                both = both or any(len(c2) == 1 and c2[0][0] == c[0][0] and c2[0][1] is False for c2 in sites)
        goals.append((f"required-tag-{t}-written-on-every-path", uncond or both))
    return goals
