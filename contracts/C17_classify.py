"""C17: classifiers -- label decoding of the arg-max column, averaging of member / tree probabilities, interval features.

The fitted trees / member classifiers / label encoder are ABSTRACT objects (ghost trace of their calls, results =
arbitrary arrays); the statements are about which data reaches them and how their outputs are combined."""
from pyvc.spec import *   # noqa
from pyvc.values import SArr, SList, SObj, Opaque, AbstractObj, SDict
from pyvc.libmodels import Event
from pyvc.libnp import row_aggregate
from pyvc import ops
import z3
from contracts.C07_evaluate import trace

TSFB = "sktime/series_as_features/base/estimators/interval_based/_tsf.py"
TSFC = "sktime/classification/interval_based/_tsf.py"
TSFR = "sktime/regression/interval_based/_tsf.py"
BASE = "sktime/classification/base.py"
COLENS = "sktime/classification/compose/_column_ensemble.py"
SLOPE = "sktime/utils/slope_and_trend.py"
Z = ops.to_z3


# ----------------------------------------------------------------------------- interval features
def _ctx():
    from pyvc import spec as _S
    return _S.CUR.ctx


def _panel(B, name="X"):
    n = B.int("n_instances", 1)
    L = B.int("series_length", 1)
    return B.arr(name, dtype="real", shape=[n, L])


def _intervals(B, L, name="intervals", m=None):
    m = B.int("n_intervals", 1) if m is None else m
    iv = B.arr(name, dtype="int", shape=[m, 2])
    B.assume(ForAll(lambda j: And(Z(iv.fn(j, 0)) >= 0, Z(iv.fn(j, 0)) < Z(iv.fn(j, 1)), Z(iv.fn(j, 1)) <= Z(L)), 0, m, "j"))
    return iv


def _tr_inputs(B, case):
    X = _panel(B)
    return {"X": X, "intervals": _intervals(B, X.shape[1])}


def feature_spec(ctx, X, iv):
    """(n, 3m): columns 3j, 3j+1, 3j+2 = mean, std, slope of X[i, a_j:b_j]"""
    n, m = X.shape[0], iv.shape[0]
    mean, std, slope = (row_aggregate(ctx, q, X) for q in ("mean", "std", "slope"))

    def cell(i, c):
        c = Z(c)
        j = c / 3
        a, b = Z(iv.fn(j, 0)), Z(iv.fn(j, 1))
        return If(c % 3 == 0, mean(Z(i), a, b), If(c % 3 == 1, std(Z(i), a, b), slope(Z(i), a, b)))
    return SArr((n, ops.simp(3 * Z(m))), cell, "real", "ndarray")


def _tr_inv(S):
    """after k intervals rows 3j..3j+2 (j < k) of the (3m, n) table hold mean / std / slope of interval j"""
    T = S.transformed_x
    X, iv = S.A.X, S.A.intervals
    n, m = X.shape[0], iv.shape[0]
    mean, std, slope = (row_aggregate(_ctx(), q, X) for q in ("mean", "std", "slope"))
    return And(Eq(T.shape[0], ops.simp(3 * Z(m))), Eq(T.shape[1], n),
               ForAll(lambda j: ForAll(lambda i: And(
                   Eq(T.fn(ops.simp(3 * Z(j)), i), mean(Z(i), Z(iv.fn(j, 0)), Z(iv.fn(j, 1)))),
                   Eq(T.fn(ops.simp(3 * Z(j) + 1), i), std(Z(i), Z(iv.fn(j, 0)), Z(iv.fn(j, 1)))),
                   Eq(T.fn(ops.simp(3 * Z(j) + 2), i), slope(Z(i), Z(iv.fn(j, 0)), Z(iv.fn(j, 1))))), 0, n, "i"), 0, S.k, "j"))


def _slope_returns(A):
    from pyvc.libnp import row_agg_of_view
    from pyvc import spec as _S
    return row_agg_of_view(_S.CUR, "slope", A.y)


contract(f"{SLOPE}::_slope", "C17,C14", cases=["-"], assumed=True,
         applicable=lambda A: isinstance(A.y, SArr) and getattr(A.y, "view_of", None) is not None and A.axis == 1,
         inputs=lambda B, case: {}, returns=_slope_returns,
         notes=["ASSUMED: _slope(window, axis=1) is a function of the cells of each row of the window (least-squares slope against "
                "1..len); its formula is compared with np.polyfit by the bounded tier only"])

contract(f"{TSFB}::_transform", "C17", cases=["-"], inputs=_tr_inputs,
         returns=lambda A: feature_spec(_ctx(), A.X, A.intervals), invariants={0: _tr_inv},
         notes=["np.mean / np.std along a row window are uninterpreted functions of (row, start, stop) of X"])


# ----------------------------------------------------------------------------- time series forest: average of the trees
def _forest(B, case, module, clsname, method):
    I = B.I
    E = int(case)
    ok, cls = I.mod_global(I.src.module(module), clsname)
    obj = SObj(cls)
    n = B.int("n_instances", 1)
    cols = B.int("n_columns", 1)
    L = B.int("n_timepoints", 1)
    X = B.arr("X", dtype="real", shape=[n, cols, L], kind="ndarray")
    C = B.int("n_classes", 1)
    Ls = B.int("fitted_series_length", 1)
    trees, ivs, outs = [], [], []
    for t in range(E):
        tree = B.abstract(f"tree{t}")
        out = B.arr(f"P{t}", dtype="real", shape=[n, C] if method == "predict_proba" else [n])
        tree.results = {method: (lambda o_: (lambda I2, o, ev: o_))(out)}
        trees.append(tree)
        outs.append(out)
        ivs.append(_intervals(B, Ls, f"intervals{t}", m=B.int(f"n_intervals{t}", 1)))
    obj.attrs.update(_is_fitted=True, n_jobs=B.opaque("n_jobs"), n_estimators=E, estimators_=SList(trees, "list"),
                     intervals_=SList(ivs, "list"), n_classes=C, series_length=Ls, min_interval=3, random_state=B.opaque("random_state"))
    obj.ghost = dict(trees=trees, ivs=ivs, outs=outs, X=X, E=E)
    return {"self": obj, "X": X}


def _forest_events(method):
    def post(A, r):
        g = A.self.ghost
        evs = [e for e in trace() if e.obj is not None]
        if len(evs) != g["E"]:
            return False
        conds = []
        for t, e in enumerate(evs):                      # tree t is asked once, in order, about ITS intervals
            if e.obj is not g["trees"][t] or e.method != method or len(e.args) != 1 or not isinstance(e.arg(0), SArr):
                return False
            conds.append(equiv(e.arg(0), feature_spec(_ctx(), g["X"], g["ivs"][t])))
        return And(*conds)
    return post


def _forest_avg(A):
    g = A.self.ghost
    outs, E = g["outs"], g["E"]

    def cell(*i):
        s = Z(outs[0].fn(*i))
        for o in outs[1:]:
            s = s + Z(o.fn(*i))
        return ops.simp(s / z3.RealVal(E))
    return SArr(outs[0].shape, cell, "real", "ndarray")


_FOREST_RAISES = [("ValueError", lambda A: Z(A.X.shape[1]) > 1),
                  ("TypeError", lambda A: And(Z(A.X.shape[1]) == 1, Z(A.X.shape[2]) != Z(A.self.attrs["series_length"])))]

contract(f"{TSFC}::TimeSeriesForestClassifier.predict_proba", "C17,C16,C12", cases=["1", "2", "3"],
         inputs=lambda B, case: _forest(B, case, "sktime.classification.interval_based._tsf", "TimeSeriesForestClassifier", "predict_proba"),
         raises=_FOREST_RAISES, applicable=lambda A: isinstance(getattr(A.self, "ghost", None), dict), returns=_forest_avg,
         ensures=[("every-tree-sees-mean-std-slope-of-its-own-intervals", _forest_events("predict_proba"), {"modular": False})],
         frame=lambda A: [A.self, A.X],
         notes=["1..3 trees (bound on the NUMBER of trees only; each tree is an arbitrary function returning an arbitrary (n, n_classes) "
                "array); joblib returns results in submission order (assumed)"])

contract(f"{TSFR}::TimeSeriesForestRegressor.predict", "C17,C16,C12", cases=["1", "2", "3"],
         inputs=lambda B, case: _forest(B, case, "sktime.regression.interval_based._tsf", "TimeSeriesForestRegressor", "predict"),
         raises=_FOREST_RAISES, applicable=lambda A: isinstance(getattr(A.self, "ghost", None), dict), returns=_forest_avg,
         ensures=[("every-tree-sees-mean-std-slope-of-its-own-intervals", _forest_events("predict"), {"modular": False})],
         frame=lambda A: [A.self, A.X])


# ----------------------------------------------------------------------------- label decoding of the arg-max column
def _labels(B, C, name="classes_"):
    """training label set: arbitrary pairwise distinct values (integers stand for any hashable label type)"""
    cl = B.arr(name, dtype="int", shape=[C])
    B.assume(ForAll2(lambda a, b: Z(cl.fn(a)) != Z(cl.fn(b)), 0, C))
    return cl


def _panel3(B):
    n = B.int("n_instances", 1)
    return B.arr("X", dtype="real", shape=[n, B.int("n_columns", 1), B.int("n_timepoints", 1)], kind="ndarray")


def _native(f):
    f._pyvc_native = True
    return f


def _decode_inputs(module, clsname, encoder=False):
    def inputs(B, case):
        I = B.I
        ok, cls = I.mod_global(I.src.module(module), clsname)
        obj = SObj(cls)
        X = _panel3(B)
        C = B.int("n_classes", 1)
        P = B.arr("P", dtype="real", shape=[X.shape[0], C])
        cl = _labels(B, C)
        calls = []

        def predict_proba(I2, args, kwargs):
            calls.append(args)
            return P
        obj.attrs.update(_is_fitted=True, classes_=cl, predict_proba=_native(predict_proba))
        if encoder:
            le = B.abstract("label_encoder")

            def inverse_transform(I2, o, ev):
                from pyvc.libnp import to_arr
                idx = to_arr(I2, ev.arg(0))
                return SArr((idx.len,), lambda i: cl.fn(idx.fn(i)), "int", "ndarray")
            le.results = {"inverse_transform": inverse_transform}
            le.attrs["classes_"] = cl
            obj.attrs["label_encoder"] = le
        obj.ghost = dict(P=P, classes=cl, calls=calls, X=X)
        return {"self": obj, "X": X}
    return inputs


def _decoded(A, r):
    """one label per instance, taken from the training label set, whose column attains the row maximum"""
    g = A.self.ghost
    P, cl = g["P"], g["classes"]
    n, C = P.shape
    if not isinstance(r, SArr) or r.ndim != 1:
        return False
    return And(Eq(r.len, n), len(g["calls"]) == 1 and g["calls"][0][0] is g["X"],
               ForAll(lambda i: Exists(lambda j: And(Eq(r.fn(i), cl.fn(j)),
                                                     ForAll(lambda j2: Z(P.fn(i, j2)) <= Z(P.fn(i, j)), 0, C, "j2")), 0, C, "j"), 0, n, "i"))


def _base_predict_inv(S):
    p = S.predictions
    P = S.A.self.ghost["P"]
    C = P.shape[1]
    if isinstance(p, SList):
        return len(p.items) == 0 and Eq(S.k, 0)
    return And(Eq(p.len, S.k), ForAll(lambda i: And(Z(p.fn(i)) >= 0, Z(p.fn(i)) < Z(C),
                                                    ForAll(lambda j2: Z(P.fn(i, j2)) <= Z(P.fn(i, p.fn(i))), 0, C, "j2")), 0, S.k, "i"))


def _havoc_int_list(I, S):
    n = I.ctx.fresh_int("len(predictions)")
    I.ctx.assume(n >= 0)
    f = I.ctx.fresh_fun("predictions", z3.IntSort(), z3.IntSort())
    return SArr((n,), lambda i: f(Z(i)), "int", "list")


contract(f"{BASE}::BaseClassifier.predict", "C17,C12", cases=["-"],
         inputs=_decode_inputs("sktime.classification.base", "BaseClassifier", encoder=True),
         ensures=[("label-of-a-maximal-probability-column-for-every-instance", _decoded)],
         invariants={0: _base_predict_inv}, loop_havoc={0: {"predictions": _havoc_int_list}},
         frame=lambda A: [A.self, A.X],
         notes=["predict_proba is abstract (any (n, n_classes) array); LabelEncoder.inverse_transform(idx)[i] == classes_[idx[i]] (sklearn, assumed)"])

contract(f"{TSFC}::TimeSeriesForestClassifier.predict", "C17,C12", cases=["-"],
         inputs=_decode_inputs("sktime.classification.interval_based._tsf", "TimeSeriesForestClassifier"),
         ensures=[("label-of-a-maximal-probability-column-for-every-instance", _decoded)],
         frame=lambda A: [A.self, A.X])


def _score_inputs(B, case):
    I = B.I
    ok, cls = I.mod_global(I.src.module("sktime.classification.base"), "BaseClassifier")
    obj = SObj(cls)
    X = _panel3(B)
    yp = B.arr("y_pred", dtype="int", shape=[X.shape[0]])
    calls = []

    def predict(I2, args, kwargs):
        calls.append(args)
        return yp
    obj.attrs.update(_is_fitted=True, predict=_native(predict))
    obj.ghost = dict(calls=calls, yp=yp, X=X)
    return {"self": obj, "X": X, "y": B.arr("y", dtype="int", shape=[X.shape[0]])}


def _score_post(A, r):
    g = A.self.ghost
    evs = [e for e in trace() if e.method == "sk:accuracy_score"]
    return len(evs) == 1 and len(g["calls"]) == 1 and g["calls"][0][0] is A.X and evs[0].arg(0) is A.y and evs[0].arg(1) is g["yp"] and \
        evs[0].kwargs.get("normalize", True) is True and r is evs[0].result and len(evs[0].args) == 2 and \
        set(evs[0].kwargs) <= {"normalize"}


contract(f"{BASE}::BaseClassifier.score", "C17,C12", cases=["-"], inputs=_score_inputs,
         ensures=[("fraction-of-matching-predictions:accuracy_score(y, predict(X), normalize=True)", _score_post, {"modular": False})],
         frame=lambda A: [A.self, A.X, A.y],
         notes=["sklearn.metrics.accuracy_score(y_true, y_pred, normalize=True) = fraction of positions where the two agree (external, assumed)"])


# ----------------------------------------------------------------------------- column ensemble: average of the members on their own columns
def _colens_inputs(B, case):
    I = B.I
    m = int(case.split("|")[0])
    with_dropped = case.endswith("|drop")
    ok, cls = I.mod_global(I.src.module("sktime.classification.compose._column_ensemble"), "ColumnEnsembleClassifier")
    obj = SObj(cls)
    X = B.opaque("X (panel)")
    n = B.int("n_instances", 1)
    C = B.int("n_classes", 1)
    members, outs, cols, ests = [], [], [], []
    for t in range(m):
        est = B.abstract(f"member{t}")
        P = B.arr(f"P{t}", dtype="real", shape=[n, C])
        est.results = {"predict_proba": (lambda o_: (lambda I2, o, ev: o_))(P)}
        col = SList([t], "list")
        ests.append(SList([f"m{t}", est, col], "tuple"))
        members.append(est)
        outs.append(P)
        cols.append(col)
    fitted = list(ests)
    if with_dropped:       # a 'drop' entry and an empty column selection are skipped
        fitted.insert(1 if m > 1 else 0, SList(["dropped", "drop", SList([7], "list")], "tuple"))
        nu = B.abstract("never-used")
        Pn = B.arr("Pnever", dtype="real", shape=[n, C])
        nu.results = {"predict_proba": (lambda I2, o, ev: Pn)}
        fitted.append(SList(["nothing", nu, SList([], "list")], "tuple"))
    rem = SList(["remainder", "drop", None], "tuple")
    if case.endswith("|rem"):
        # an estimator for the remaining columns: its FITTED clone is the last entry of estimators_, the configured
        # (unfitted) one stays in _remainder and must not be asked
        est = B.abstract("remainder-fitted")
        P = B.arr("Prem", dtype="real", shape=[n, C])
        est.results = {"predict_proba": (lambda I2, o, ev: P)}
        col = SList([m, m + 1], "list")
        fitted.append(SList(["remainder", est, col], "tuple"))
        members.append(est)
        outs.append(P)
        cols.append(col)
        unf = B.abstract("remainder-as-configured")
        Pu = B.arr("Punfitted", dtype="real", shape=[n, C])
        unf.results = {"predict_proba": (lambda I2, o, ev: Pu)}
        rem = SList(["remainder", unf, col], "tuple")
    cl = _labels(B, C)
    le = B.abstract("le_")

    def inverse_transform(I2, o, ev):
        from pyvc.libnp import to_arr
        idx = to_arr(I2, ev.arg(0))
        return SArr((idx.len,), lambda i: cl.fn(idx.fn(i)), "int", "ndarray")
    le.results = {"inverse_transform": inverse_transform}
    obj.attrs.update(_is_fitted=True, estimators_=SList(fitted, "list"), estimators=SList(ests, "list"), remainder="drop",
                     _remainder=rem, le_=le, classes_=cl, verbose=False)
    obj.ghost = dict(members=members, outs=outs, cols=cols, X=X, E=len(members), classes=cl, P=None)
    return {"self": obj, "X": X}


contract(f"{COLENS}::_get_column", "C17", cases=["-"], assumed=True, inputs=lambda B, case: {},
         returns=lambda A: Opaque("columns of X", prov=("columns", A.X, A.key)),
         notes=["ASSUMED: _get_column(X, key) selects the columns `key` of X (positional for integers, by name for strings); "
                "compared with direct pandas / numpy selection by the bounded tier"])


def _colens_events(A, r):
    g = A.self.ghost
    evs = [e for e in trace() if e.obj is not None and e.method == "predict_proba"]
    if len(evs) != g["E"]:
        return False
    for t, e in enumerate(evs):            # member t once, on exactly its own columns of the caller's X
        a = e.arg(0) if len(e.args) == 1 else None
        if e.obj is not g["members"][t] or not isinstance(a, Opaque) or a.prov is None or a.prov[0] != "columns" or \
                a.prov[1] is not g["X"] or a.prov[2] is not g["cols"][t]:
            return False
    return True


def _colens_decoded(A, r):
    g = A.self.ghost
    avg = _forest_avg(A)
    n, C = avg.shape
    cl = g["classes"]
    if not isinstance(r, SArr) or r.ndim != 1:
        return False
    return And(Eq(r.len, n),
               ForAll(lambda i: Exists(lambda j: And(Eq(r.fn(i), cl.fn(j)),
                                                     ForAll(lambda j2: Z(avg.fn(i, j2)) <= Z(avg.fn(i, j)), 0, C, "j2")), 0, C, "j"), 0, n, "i"))


_CE_CASES = ["1|", "2|", "3|", "1|drop", "2|drop", "3|drop", "1|rem", "2|rem"]
contract(f"{COLENS}::BaseColumnEnsembleClassifier.predict_proba", "C17,C16,C12", cases=_CE_CASES, inputs=_colens_inputs,
         applicable=lambda A: isinstance(getattr(A.self, "ghost", None), dict), returns=_forest_avg,
         ensures=[("every-member-sees-exactly-its-own-columns", _colens_events, {"modular": False})],
         frame=lambda A: [A.self, A.X],
         notes=["1..3 members (bound on the NUMBER of members only), with and without skipped ('drop' / empty selection) entries"])

contract(f"{COLENS}::BaseColumnEnsembleClassifier.predict", "C17,C12", cases=_CE_CASES, inputs=_colens_inputs,
         ensures=[("label-of-a-maximal-average-probability-column", _colens_decoded)],
         frame=lambda A: [A.self, A.X])


# ----------------------------------------------------------------------------- well-formedness is inherited from the members
@lemma("C17/average-of-distributions-is-a-distribution", "C17",
       uses=[f"{TSFC}::TimeSeriesForestClassifier.predict_proba", f"{COLENS}::BaseColumnEnsembleClassifier.predict_proba"])
def _avg_is_distribution(B):
    """the two predict_proba contracts give out[i, j] = (P_1[i, j] + ... + P_m[i, j]) / m.  If every member row lies in
    [0, 1] and sums to 1, so does every output row.  The row sum over a SYMBOLIC number of classes is the recursive
    prefix sum S(c) = S(c - 1) + row[c - 1]; linearity is shown by induction on c (base and step are obligations)."""
    out = []
    for m in (1, 2, 3):
        c = B.int(f"c{m}", 0)
        p = [B.real(f"p{m}_{t}") for t in range(m)]            # the entries P_t[i, c] of the next column
        s = [B.real(f"S{m}_{t}") for t in range(m)]            # prefix sums S_t(c) of the members
        s_avg = B.real(f"Savg{m}")                             # prefix sum of the output row
        cell = sum(p[1:], p[0]) / m                            # contract: out[i, c]
        hyp = s_avg == sum(s[1:], s[0]) / m                    # induction hypothesis at c
        out.append((f"m={m}:entry-in-unit-interval", Implies(And(*[And(x >= 0, x <= 1) for x in p]), And(cell >= 0, cell <= 1))))
        out.append((f"m={m}:prefix-sum-base", z3.RealVal(0) == sum([z3.RealVal(0)] * (m - 1), z3.RealVal(0)) / m))
        out.append((f"m={m}:prefix-sum-step", Implies(hyp, s_avg + cell == sum([a + b for a, b in zip(s, p)][1:], s[0] + p[0]) / m)))
        out.append((f"m={m}:rows-sum-to-one", Implies(And(hyp, *[x == 1 for x in s]), s_avg == 1)))
    return out


# ----------------------------------------------------------------------------- BOSS ensemble: vote counting
BOSS = "sktime/classification/dictionary_based/_boss.py"


def _boss_inputs(B, case):
    I = B.I
    m = int(case)
    ok, cls = I.mod_global(I.src.module("sktime.classification.dictionary_based._boss"), "BOSSEnsemble")
    obj = SObj(cls)
    X = _panel3(B)
    n = X.shape[0]
    C = B.int("n_classes", 1)
    cd = z3.Function("class_dictionary", z3.IntSort(), z3.IntSort())       # label -> column
    B.I.ctx.inputs["class_dictionary"] = cd
    members, votes = [], []
    for t in range(m):
        clf = B.abstract(f"boss{t}")
        L = B.arr(f"votes{t}", dtype="int", shape=[n])                     # the label member t predicts for each instance
        B.assume(ForAll(lambda i: And(cd(Z(L.fn(i))) >= 0, cd(Z(L.fn(i))) < Z(C)), 0, n, "i"))   # every vote is a training label
        clf.results = {"predict": (lambda o_: (lambda I2, o, ev: o_))(L)}
        members.append(clf)
        votes.append(L)
    d = Opaque("class_dictionary")
    d.getitem = lambda I2, o, key: cd(Z(key))
    obj.attrs.update(_is_fitted=True, classifiers=SList(members, "list"), n_estimators=m, n_classes=C, class_dictionary=d,
                     random_state=B.opaque("random_state"), n_jobs=1)
    obj.ghost = dict(members=members, votes=votes, cd=cd, C=C, X=X, m=m)
    return {"self": obj, "X": X}


def _votes(g, upto, i, j, partial=None):
    """number of members t < upto voting for column j on instance i (+ member `upto` when i < partial)"""
    cd, votes = g["cd"], g["votes"]
    s = z3.RealVal(0)
    for t in range(upto):
        s = s + z3.If(cd(Z(votes[t].fn(i))) == Z(j), z3.RealVal(1), z3.RealVal(0))
    if partial is not None:
        s = s + z3.If(And(Z(i) < Z(partial), cd(Z(votes[upto].fn(i))) == Z(j)), z3.RealVal(1), z3.RealVal(0))
    return s


def _boss_inv(S):
    g = S.A.self.ghost
    t = [q for q, c in enumerate(g["members"]) if c is S.clf]
    if len(t) != 1:
        return False
    t = t[0]
    sums = S.sums
    n, C = g["X"].shape[0], g["C"]
    return And(Eq(sums.shape[0], n), Eq(sums.shape[1], C), S.preds is g["votes"][t],
               ForAll(lambda i: ForAll(lambda j: Eq(sums.fn(i, j), _votes(g, t, i, j, partial=S.k)), 0, C, "j"), 0, n, "i"))


def _boss_returns(A):
    g = A.self.ghost
    n, C, m = g["X"].shape[0], g["C"], g["m"]
    return SArr((n, C), lambda i, j: ops.simp(_votes(g, m, i, j) / z3.RealVal(m)), "real", "ndarray")


contract(f"{BOSS}::BOSSEnsemble.predict_proba", "C17,C16,C12", cases=["1", "2", "3"], inputs=_boss_inputs,
         raises=[("ValueError", lambda A: Z(A.X.shape[1]) > 1)],
         applicable=lambda A: isinstance(getattr(A.self, "ghost", None), dict), returns=_boss_returns, invariants={1: _boss_inv},
         ensures=[("every-member-votes-once-on-the-callers-data",
                   lambda A, r: [(e.obj, e.method) for e in trace() if e.obj is not None] == [(c, "predict") for c in A.self.ghost["members"]]
                   and all(e.arg(0) is A.X for e in trace() if e.obj is not None), {"modular": False})],
         frame=lambda A: [A.self, A.X],
         notes=["1..3 member classifiers (bound on the NUMBER only); class_dictionary is an arbitrary map of labels to columns; "
                "state invariant assumed: n_estimators == len(classifiers) (set by fit)"])


@lemma("C17/vote-shares-form-a-distribution", "C17", uses=[f"{BOSS}::BOSSEnsemble.predict_proba"])
def _votes_are_distribution(B):
    """out[i, j] = #{members voting j} / m: each entry in [0, 1]; prefix sums over the columns count every member at most once and
    exactly once when the member's column has been passed (induction on the column)"""
    out = []
    for m in (1, 2, 3):
        c = B.int(f"col{m}", 0)                       # next column in the induction
        v = [B.int(f"v{m}_{t}", 0) for t in range(m)]   # column each member votes for
        ind = lambda t, j: z3.If(v[t] == j, z3.RealVal(1), z3.RealVal(0))
        cell = sum([ind(t, c) for t in range(m)][1:], ind(0, c)) / m
        S = B.real(f"prefix{m}")
        hyp = S == sum([z3.If(v[t] < c, z3.RealVal(1), z3.RealVal(0)) for t in range(m)][1:], z3.If(v[0] < c, z3.RealVal(1), z3.RealVal(0))) / m
        nxt = S + cell == sum([z3.If(v[t] < c + 1, z3.RealVal(1), z3.RealVal(0)) for t in range(m)][1:], z3.If(v[0] < c + 1, z3.RealVal(1), z3.RealVal(0))) / m
        C = B.int(f"C{m}", 1)
        out.append((f"m={m}:entry-in-unit-interval", And(cell >= 0, cell <= 1)))
        out.append((f"m={m}:prefix-sum-step", Implies(hyp, nxt)))
        out.append((f"m={m}:rows-sum-to-one", Implies(And(hyp, c == C, *[x < C for x in v]), S == 1)))
    return out


# ----------------------------------------------------------------------------- weighted vote shares: ContractableBOSS, TemporalDictionaryEnsemble
CBOSS = "sktime/classification/dictionary_based/_cboss.py"
TDE = "sktime/classification/dictionary_based/_tde.py"


def _wens_inputs(module, clsname):
    def inputs(B, case):
        I = B.I
        m = int(case)
        ok, cls = I.mod_global(I.src.module(module), clsname)
        obj = SObj(cls)
        X = _panel3(B)
        n = X.shape[0]
        C = B.int("n_classes", 1)
        cd = z3.Function("class_dictionary", z3.IntSort(), z3.IntSort())
        B.I.ctx.inputs["class_dictionary"] = cd
        members, votes, weights = [], [], []
        for t in range(m):
            clf = B.abstract(f"member{t}")
            other = z3.Function(f"member{t}_own_dictionary", z3.IntSort(), z3.IntSort())     # a member's own dictionary may differ
            d_t = Opaque(f"member{t}.class_dictionary")
            d_t.getitem = (lambda f_: (lambda I2, o, key: f_(Z(key))))(other)
            clf.attrs["class_dictionary"] = d_t
            L = B.arr(f"votes{t}", dtype="int", shape=[n])
            B.assume(ForAll(lambda i: And(cd(Z(L.fn(i))) >= 0, cd(Z(L.fn(i))) < Z(C), other(Z(L.fn(i))) >= 0, other(Z(L.fn(i))) < Z(C)), 0, n, "i"))
            clf.results = {"predict": (lambda o_: (lambda I2, o, ev: o_))(L)}
            members.append(clf)
            votes.append(L)
            w = B.real(f"weight{t}")
            B.assume(w > 0)
            weights.append(w)
        d = Opaque("class_dictionary")
        d.getitem = lambda I2, o, key: cd(Z(key))
        wsum = weights[0]
        for w in weights[1:]:
            wsum = wsum + w
        obj.attrs.update(_is_fitted=True, classifiers=SList(members, "list"), n_estimators=m, n_classes=C, class_dictionary=d,
                         weights=SList(list(weights), "list"), weight_sum=ops.simp(wsum), random_state=B.opaque("random_state"), n_jobs=1)
        obj.ghost = dict(members=members, votes=votes, cd=cd, C=C, X=X, m=m, weights=weights, wsum=wsum)
        return {"self": obj, "X": X}
    return inputs


def _wvotes(g, upto, i, j, partial=None):
    cd, votes, w = g["cd"], g["votes"], g["weights"]
    s = z3.RealVal(0)
    for t in range(upto):
        s = s + z3.If(cd(Z(votes[t].fn(i))) == Z(j), w[t], z3.RealVal(0))
    if partial is not None:
        s = s + z3.If(And(Z(i) < Z(partial), cd(Z(votes[upto].fn(i))) == Z(j)), w[upto], z3.RealVal(0))
    return s


def _wens_inv(S):
    g = S.A.self.ghost
    t = [q for q, c in enumerate(g["members"]) if c is S.clf]
    if len(t) != 1:
        return False
    t = t[0]
    sums = S.sums
    n, C = g["X"].shape[0], g["C"]
    return And(Eq(sums.shape[0], n), Eq(sums.shape[1], C), S.preds is g["votes"][t], Eq(S.n, t),
               ForAll(lambda i: ForAll(lambda j: Eq(sums.fn(i, j), _wvotes(g, t, i, j, partial=S.k)), 0, C, "j"), 0, n, "i"))


def _wens_returns(A):
    g = A.self.ghost
    n, C, m = g["X"].shape[0], g["C"], g["m"]
    return SArr((n, C), lambda i, j: ops.simp(_wvotes(g, m, i, j) / g["wsum"]), "real", "ndarray")


for _mod, _file, _cls, _uni in (("sktime.classification.dictionary_based._cboss", CBOSS, "ContractableBOSS", True),
                                ("sktime.classification.dictionary_based._tde", TDE, "TemporalDictionaryEnsemble", False)):
    contract(f"{_file}::{_cls}.predict_proba", "C17,C16,C12", cases=["1", "2", "3"], inputs=_wens_inputs(_mod, _cls),
             raises=[("ValueError", (lambda A: Z(A.X.shape[1]) > 1) if _uni else (lambda A: False))],
             applicable=lambda A: isinstance(getattr(A.self, "ghost", None), dict), returns=_wens_returns, invariants={1: _wens_inv},
             frame=lambda A: [A.self, A.X],
             notes=["1..3 members with arbitrary positive weights; state invariant assumed: weight_sum == sum(weights) (set by fit); "
                    "votes are counted through the ENSEMBLE's class dictionary (each member carries its own, possibly different one)"])


# ----------------------------------------------------------------------------- individual BOSS: one nearest-neighbour query per instance
def _iboss_inputs(B, case):
    I = B.I
    ok, cls = I.mod_global(I.src.module("sktime.classification.dictionary_based._boss"), "IndividualBOSS")
    obj = SObj(cls)
    X = _panel3(B)
    n = X.shape[0]
    C = B.int("n_classes", 1)
    lbl = z3.Function("nearest_neighbour_label", z3.IntSort(), z3.IntSort())      # label the 1-NN search returns for bag i
    cd = z3.Function("class_dictionary", z3.IntSort(), z3.IntSort())
    B.assume(ForAll(lambda i: And(cd(lbl(Z(i))) >= 0, cd(lbl(Z(i))) < Z(C)), 0, n, "i"))
    calls = []

    def bag(i):
        return Opaque("bag of words of one instance", prov=("bag", i))
    bags = SArr((n,), bag, "obj", "list")
    tr = B.abstract("sfa_transformer")
    tr.results = {"transform": lambda I2, o, ev: SList([bags], "list")}

    def _test_nn(I2, args, kwargs):
        calls.append((list(args), dict(kwargs)))
        b = args[0] if args else None
        if not (isinstance(b, Opaque) and b.prov and b.prov[0] == "bag"):
            raise Undecided("_test_nn called on something that is not a bag of the batch")
        return lbl(Z(b.prov[1]))
    d = Opaque("class_dictionary")
    d.opaque_methods = {"get": lambda I2, recv, a, kw: cd(Z(a[0]))}
    d.getitem = lambda I2, o, key: cd(Z(key))
    obj.attrs.update(_is_fitted=True, transformer=tr, n_jobs=B.opaque("n_jobs"), random_state=B.opaque("random_state"),
                     _test_nn=_native(_test_nn), class_dictionary=d, num_classes=C)
    obj.ghost = dict(X=X, lbl=lbl, calls=calls, tr=tr, cd=cd, C=C)
    return {"self": obj, "X": X}


def _iboss_post(A, r):
    g = A.self.ghost
    n = g["X"].shape[0]
    evs = [e for e in trace() if e.obj is g["tr"]]
    ok = len(evs) == 1 and evs[0].method == "transform" and evs[0].arg(0) is g["X"] and \
        all(len(a) == 1 and not kw for a, kw in g["calls"])          # every query sees its own bag and nothing else
    if not ok or not isinstance(r, SArr):
        return False
    return And(Eq(r.len, n), ForAll(lambda i: Eq(r.fn(i), g["lbl"](Z(i))), 0, n, "i"))


contract(f"{BOSS}::IndividualBOSS.predict", "C17,C16,C12", cases=["-"], inputs=_iboss_inputs,
         raises=[("ValueError", lambda A: Z(A.X.shape[1]) > 1)],
         ensures=[("label-i-is-the-nearest-neighbour-query-of-bag-i-alone", _iboss_post, {"modular": False})],
         frame=lambda A: [A.self, A.X],
         notes=["the SFA transformer and the 1-NN search (_test_nn) are abstract: the statement is that instance i is answered by ONE query "
                "that receives bag i and nothing shared with the other instances"])


def _iboss_proba_inputs(B, case):
    d = _iboss_inputs(B, case)
    obj = d["self"]
    g = obj.ghost
    n = g["X"].shape[0]
    preds = SArr((n,), lambda i: g["lbl"](Z(i)), "int", "ndarray")
    pc = []

    def predict(I2, args, kwargs):
        pc.append(args)
        return preds
    obj.attrs["predict"] = _native(predict)
    g["pc"] = pc
    return d


def _iboss_proba_inv(S):
    g = S.A.self.ghost
    n, C = g["X"].shape[0], g["C"]
    d = S.dists
    return And(Eq(d.shape[0], n), Eq(d.shape[1], C),
               ForAll(lambda i: ForAll(lambda j: Eq(d.fn(i, j), z3.If(And(Z(i) < Z(S.k), g["cd"](g["lbl"](Z(i))) == Z(j)), z3.RealVal(1), z3.RealVal(0))),
                                       0, C, "j"), 0, n, "i"))


contract(f"{BOSS}::IndividualBOSS.predict_proba", "C17,C16,C12", cases=["-"], inputs=_iboss_proba_inputs,
         returns=lambda A: (lambda g: SArr((g["X"].shape[0], g["C"]),
                                           lambda i, j: z3.If(g["cd"](g["lbl"](Z(i))) == Z(j), z3.RealVal(1), z3.RealVal(0)), "real", "ndarray"))(A.self.ghost),
         applicable=lambda A: isinstance(getattr(A.self, "ghost", None), dict) and "pc" in A.self.ghost,
         invariants={0: _iboss_proba_inv},
         ensures=[("predict-called-once-on-the-callers-data", lambda A, r: len(A.self.ghost["pc"]) == 1 and A.self.ghost["pc"][0][0] is A.X, {"modular": False})],
         frame=lambda A: [A.self, A.X],
         notes=["one-hot row of the predicted label's column (a distribution by construction)"])


# ----------------------------------------------------------------------------- RISE: average of the per-estimator probabilities
RISE = "sktime/classification/interval_based/_rise.py"


def _rise_transform_returns(A):
    return Opaque("spectral features of one interval", prov=("rise_transform", A.X, A.interval, A.lag))


contract(f"{RISE}::_transform", "C17", cases=["-"], assumed=True, inputs=lambda B, case: {}, returns=_rise_transform_returns,
         notes=["ASSUMED: RISE's _transform(X, interval, lag) (power spectrum and autocorrelation features of the interval) is a function "
                "of its three arguments, row by row; its values are bounded-tier only"])


def _rise_inputs(B, case):
    I = B.I
    E = int(case)
    ok, cls = I.mod_global(I.src.module("sktime.classification.interval_based._rise"), "RandomIntervalSpectralForest")
    obj = SObj(cls)
    X = _panel3(B)
    n = X.shape[0]
    C = B.int("n_classes", 1)
    Ls = B.int("fitted_series_length", 1)
    trees, outs, ivs, lags = [], [], [], []
    for t in range(E):
        tree = B.abstract(f"tree{t}")
        P = B.arr(f"P{t}", dtype="real", shape=[n, C])
        tree.results = {"predict_proba": (lambda o_: (lambda I2, o, ev: o_))(P)}
        trees.append(tree)
        outs.append(P)
        ivs.append(B.opaque(f"interval{t}"))
        lags.append(B.opaque(f"lag{t}"))
    obj.attrs.update(_is_fitted=True, n_jobs=B.opaque("n_jobs"), n_estimators=E, estimators_=SList(trees, "list"),
                     intervals=SList(ivs, "list"), lags=SList(lags, "list"), n_classes=C, series_length=Ls)
    obj.ghost = dict(trees=trees, outs=outs, ivs=ivs, lags=lags, X=X, E=E)
    return {"self": obj, "X": X}


def _rise_events(A, r):
    g = A.self.ghost
    evs = [e for e in trace() if e.obj is not None]
    if len(evs) != g["E"]:
        return False
    for t, e in enumerate(evs):            # tree t once, in order, on the features of ITS interval and lag of the caller's data
        a = e.arg(0) if len(e.args) == 1 else None
        if e.obj is not g["trees"][t] or e.method != "predict_proba" or not isinstance(a, Opaque) or not a.prov or a.prov[0] != "rise_transform":
            return False
        _, x2, iv, lg = a.prov
        if iv is not g["ivs"][t] or lg is not g["lags"][t] or not isinstance(x2, SArr) or x2.ndim != 2:
            return False
    X = g["X"]
    x2 = evs[0].arg(0).prov[1]
    return And(Eq(x2.shape[0], X.shape[0]), Eq(x2.shape[1], X.shape[2]),
               ForAll(lambda i: ForAll(lambda t: Eq(x2.fn(i, t), X.fn(i, 0, t)), 0, X.shape[2], "t"), 0, X.shape[0], "i"))


contract(f"{RISE}::RandomIntervalSpectralForest.predict_proba", "C17,C16,C12", cases=["1", "2", "3"], inputs=_rise_inputs,
         raises=[("ValueError", lambda A: Z(A.X.shape[1]) > 1),
                 ("TypeError", lambda A: And(Z(A.X.shape[1]) == 1, Z(A.X.shape[2]) != Z(A.self.attrs["series_length"])))],
         applicable=lambda A: isinstance(getattr(A.self, "ghost", None), dict), returns=_forest_avg,
         ensures=[("every-tree-sees-the-features-of-its-own-interval-and-lag", _rise_events, {"modular": False})],
         frame=lambda A: [A.self, A.X],
         notes=["1..3 trees; the spectral feature transform is an assumed contract (function of data, interval and lag)"])


STSF = "sktime/classification/interval_based/_stsf.py"
for _file, _mod, _cls in ((RISE, "sktime.classification.interval_based._rise", "RandomIntervalSpectralForest"),
                          (STSF, "sktime.classification.interval_based._stsf", "SupervisedTimeSeriesForest")):
    contract(f"{_file}::{_cls}.predict", "C17,C12", cases=["-"], inputs=_decode_inputs(_mod, _cls),
             ensures=[("label-of-a-maximal-probability-column-for-every-instance", _decoded)],
             frame=lambda A: [A.self, A.X])


# supervised time series forest: average of the per-estimator probabilities on (series, periodogram, first differences)
def _stsf_inputs(B, case):
    I = B.I
    E = int(case)
    ok, cls = I.mod_global(I.src.module("sktime.classification.interval_based._stsf"), "SupervisedTimeSeriesForest")
    obj = SObj(cls)
    X = _panel3(B)
    n = X.shape[0]
    C = B.int("n_classes", 1)
    trees, outs, ivs = [], [], []
    calls = []
    for t in range(E):
        tree = B.abstract(f"tree{t}")
        P = B.arr(f"P{t}", dtype="real", shape=[n, C])
        trees.append(tree)
        outs.append(P)
        ivs.append(B.opaque(f"intervals{t}"))

    def per_estimator(I2, args, kwargs):
        calls.append(list(args))
        est = args[4]
        return outs[trees.index(est)] if est in trees else B.arr("P_unknown", dtype="real", shape=[n, C])
    obj.attrs.update(_is_fitted=True, n_jobs=B.opaque("n_jobs"), n_estimators=E, estimators_=SList(trees, "list"),
                     intervals_=SList(ivs, "list"), n_classes=C, _predict_proba_for_estimator=_native(per_estimator))
    obj.ghost = dict(trees=trees, outs=outs, ivs=ivs, X=X, E=E, calls=calls)
    return {"self": obj, "X": X}


def _stsf_events(A, r):
    g = A.self.ghost
    if len(g["calls"]) != g["E"]:
        return False
    X = g["X"]
    conds = []
    for t, (x2, xp, xd, iv, est) in enumerate(g["calls"]):
        if est is not g["trees"][t] or iv is not g["ivs"][t] or not isinstance(x2, SArr) or x2.ndim != 2:
            return False
        if not (isinstance(xp, Opaque) and xp.prov and xp.prov[0] == "periodogram" and xp.prov[1] is x2):
            return False
        if not (isinstance(xd, Opaque) and xd.prov and xd.prov[0] == "diff" and xd.prov[1] is x2):
            return False
        conds.append(And(Eq(x2.shape[0], X.shape[0]), Eq(x2.shape[1], X.shape[2]),
                         ForAll(lambda i: ForAll(lambda q: Eq(x2.fn(i, q), X.fn(i, 0, q)), 0, X.shape[2], "q"), 0, X.shape[0], "i")))
    return And(*conds)


contract(f"{STSF}::SupervisedTimeSeriesForest.predict_proba", "C17,C16,C12", cases=["1", "2", "3"], inputs=_stsf_inputs,
         raises=[("ValueError", lambda A: Z(A.X.shape[1]) > 1)],
         applicable=lambda A: isinstance(getattr(A.self, "ghost", None), dict), returns=_forest_avg,
         ensures=[("every-tree-is-asked-once-with-its-own-intervals-on-series-periodogram-and-differences", _stsf_events, {"modular": False})],
         frame=lambda A: [A.self, A.X],
         notes=["1..3 trees; _predict_proba_for_estimator (feature extraction + tree) is abstract here; scipy.signal.periodogram and np.diff "
                "are opaque functions of the squeezed data (recorded by provenance)"])


# ----------------------------------------------------------------------------- the state invariants the vote-share contracts assume are set by fit
@lemma("C17/ensemble-fit-establishes-the-normalisation-invariant", "C17",
       uses=[f"{BOSS}::BOSSEnsemble.predict_proba", f"{CBOSS}::ContractableBOSS.predict_proba", f"{TDE}::TemporalDictionaryEnsemble.predict_proba"])
def _fit_sets_normaliser(B):
    """BOSSEnsemble.predict_proba divides by n_estimators, the weighted ensembles by weight_sum; the contracts assume
    n_estimators == len(classifiers) resp. weight_sum == sum(weights).  Flow argument over the real AST of `fit`: the LAST statement
    that touches the normaliser is the top-level assignment  self.n_estimators = len(self.classifiers)  /  self.weight_sum =
    np.sum(self.weights), and no statement after it on the way to `return self` mentions the member list / the weights."""
    import ast
    out = []
    for module, clsname, norm, expect, lists in (
            ("sktime.classification.dictionary_based._boss", "BOSSEnsemble", "n_estimators", "len(self.classifiers)", ("classifiers",)),
            ("sktime.classification.dictionary_based._cboss", "ContractableBOSS", "weight_sum", "np.sum(self.weights)", ("weights",)),
            ("sktime.classification.dictionary_based._tde", "TemporalDictionaryEnsemble", "weight_sum", "np.sum(self.weights)", ("weights",))):
        I = B.I
        ok, cls = I.mod_global(I.src.module(module), clsname)
        c, fit = I.class_lookup(cls, "fit")
        body = fit.node.body

        def is_norm_assign(st):
            return isinstance(st, ast.Assign) and len(st.targets) == 1 and isinstance(st.targets[0], ast.Attribute) and \
                isinstance(st.targets[0].value, ast.Name) and st.targets[0].value.id == "self" and st.targets[0].attr == norm

        def mentions(st, names):
            return any(isinstance(n, ast.Attribute) and isinstance(n.value, ast.Name) and n.value.id == "self" and n.attr in names
                       for n in ast.walk(st))
        idx = [k for k, st in enumerate(body) if is_norm_assign(st)]
        all_assigns = [n for n in ast.walk(fit.node) if is_norm_assign(n)]
        last_ok = bool(idx) and ast.unparse(body[idx[-1]].value).replace(" ", "") == expect.replace(" ", "")
        # every assignment to the normaliser inside fit is the top-level one (or precedes it), nothing after it touches the lists
        later = body[idx[-1] + 1:] if idx else []
        nested_after = [n for n in all_assigns if n not in body and n.lineno > (body[idx[-1]].lineno if idx else 0)]
        out.append((f"{clsname}:last-top-level-write-is-{norm}={expect}", last_ok))
        out.append((f"{clsname}:nothing-after-it-changes-the-members-or-the-normaliser",
                    bool(idx) and not any(mentions(st, lists + (norm,)) for st in later) and not nested_after))
        out.append((f"{clsname}:fit-ends-with-return-self", isinstance(body[-1], ast.Return) and isinstance(body[-1].value, ast.Name) and body[-1].value.id == "self"))
        # nested writes BEFORE the final one are harmless only if the final one is unconditional: it is a top-level statement of fit
        out.append((f"{clsname}:the-final-write-is-unconditional", bool(idx) and not any(
            isinstance(st, (ast.Return,)) for st in body[:idx[-1]])))
    return out


# ----------------------------------------------------------------------------- MUSE: predictions are the inner classifier's on the bag of words
MUSEF = "sktime/classification/dictionary_based/_muse.py"


def _muse_inputs(method):
    def inputs(B, case):
        I = B.I
        ok, cls = I.mod_global(I.src.module("sktime.classification.dictionary_based._muse"), "MUSE")
        obj = SObj(cls)
        X = B.opaque("X (panel)")
        bag = B.opaque("bag of words")
        clf = B.abstract("fitted logistic regression")
        n, C = B.int("n_instances", 1), B.int("n_classes", 2)
        labels_out = B.arr("inner_labels", dtype="int", shape=[n])
        proba_out = B.arr("inner_proba", dtype="real", shape=[n, C])
        out = labels_out if method == "predict" else proba_out
        clf.results = {"predict": lambda I2, o, ev: labels_out, "predict_proba": lambda I2, o, ev: proba_out}
        calls = []

        def tw(I2, args, kwargs):
            calls.append(list(args))
            return bag
        obj.attrs.update(_is_fitted=True, clf=clf, _transform_words=_native(tw))
        obj.ghost = dict(bag=bag, clf=clf, out=out, calls=calls, X=X, method=method)
        return {"self": obj, "X": X}
    return inputs


def _muse_post(A, r):
    g = A.self.ghost
    evs = [e for e in trace() if e.obj is g["clf"]]
    return len(evs) == 1 and evs[0].method == g["method"] and len(evs[0].args) == 1 and evs[0].arg(0) is g["bag"] and \
        r is g["out"] and len(g["calls"]) == 1 and g["calls"][0][0] is A.X


for _m in ("predict", "predict_proba"):
    contract(f"{MUSEF}::MUSE.{_m}", "C17,C12", cases=["-"], inputs=_muse_inputs(_m),
             ensures=[(f"returns-the-fitted-inner-classifiers-{_m}-on-the-words-of-X", _muse_post, {"modular": False})],
             frame=lambda A: [A.self, A.X],
             notes=["the inner scikit-learn classifier returns labels of the training label set / probabilities in classes_ order "
                    "(sklearn, assumed); the bag of words (_transform_words) is abstract"])
