"""C01: temporal cross-validation splitters (sktime/forecasting/model_selection/_split.py)."""
from pyvc.spec import *   # noqa
from pyvc.values import SArr, SList, SObj, Opaque, is_intlike
from pyvc import ops
import z3
from contracts.C02_fh import sym_fh, vals, mk_fh, FH

SP = "sktime/forecasting/model_selection/_split.py"
SPMOD = "sktime.forecasting.model_selection._split"
Z = ops.to_z3


def fh_last(fh):
    v = vals(fh)
    return v.fn(ops.simp(Z(v.len) - 1))


def sym_y(B, name="y"):
    """the time index of the series: only its length matters to the splitters"""
    n = B.int("n", 1)
    return B.arr(name, n=n, kind="Int64Index")


# ----------------------------------------------------------------------------- helpers ----

contract(f"{SP}::_get_end", "C01", cases=["oos", "any"],
         inputs=lambda B, case: {"y": sym_y(B), "fh": sym_fh(B, "fh", nonempty=True, oos=(case == "oos"))},
         returns=lambda A: If(fh_last(A.fh) <= 0, Z(A.y.len) + 1, Z(A.y.len) - fh_last(A.fh) + 1))

contract(f"{SP}::_check_window_lengths", "C01,C20", cases=["init-none", "init-int"],
         inputs=lambda B, case: {"y": sym_y(B), "fh": sym_fh(B, "fh", nonempty=True), "window_length": B.int("w", 1),
                                 "initial_window": None if case == "init-none" else B.int("iw", 1)},
         raises=[("ValueError", lambda A: Or(A.window_length + fh_last(A.fh) > Z(A.y.len),
                                             False if A.initial_window is None else A.initial_window + fh_last(A.fh) > Z(A.y.len)))],
         returns=lambda A: None)


# ----------------------------------------------------------------------------- spec functions

def rlen(start, stop, step):
    from pyvc.libmodels import range_len
    from pyvc import spec as _S
    return range_len(_S.CUR, start, stop, step)


def np_fh(B, name="fh", oos=True):
    """fh.to_numpy(): strictly increasing int array, all >= 1 (out-of-sample horizon)"""
    m = B.int(f"len({name})", 1)
    a = B.arr(name, n=m, kind="ndarray")
    B.assume(strictly_increasing(a))
    if oos:
        B.assume(ForAll(lambda i: a.fn(i) >= 1, 0, m))
    return a


def win_item(kind, A, k, start=None, w=None, step=None, fh=None):
    """k-th (train, test) pair of the sliding / expanding windows: split point sp = start + k*step"""
    start = A.start if start is None else start
    w = A.window_length if w is None else w
    step = A.step_length if step is None else step
    fh = A.fh if fh is None else fh
    sp = ops.simp(Z(start) + Z(k) * Z(step))
    lo = ops.simp(sp - Z(w)) if kind == "sliding" else ops.simp(Z(start) - Z(w))
    train = Range(lo, Max(0, ops.simp(sp - lo)), kind="ndarray")
    test = Seq(fh.len, lambda i: ops.simp(sp + Z(fh.fn(i)) - 1), kind="ndarray")
    return Tup(train, test)


for _cls, _kind in (("SlidingWindowSplitter", "sliding"), ("ExpandingWindowSplitter", "expanding")):
    contract(f"{SP}::{_cls}._split_windows", "C01", cases=["-"],
             inputs=lambda B, case: {"start": B.int("start", 0), "end": B.int("end"), "step_length": B.int("step", 1),
                                     "window_length": B.int("w", 1), "fh": np_fh(B)},
             pre=lambda A: And(A.step_length >= 1, A.window_length >= 1, A.start >= 0),
             yields_count=lambda A: rlen(A.start, A.end, A.step_length),
             yields_item=(lambda kd: lambda A, k: win_item(kd, A, k))(_kind),
             invariants={0: lambda S: Eq(S.ycount, S.k)})


# ----------------------------------------------------------------------------- BaseWindowSplitter._split

def sym_splitter(B, clsname, case):
    """symbolic splitter object; case = '<init>|<sww>'"""
    parts = case.split("|")
    I = B.I
    mod = I.src.module(SPMOD)
    ok, cls = I.mod_global(mod, clsname)
    attrs = {"fh": sym_fh(B, "fh", nonempty=True, oos=True),
             "window_length": B.int("w"), "step_length": B.int("step"),
             "initial_window": B.int("iw") if parts[0] == "init" else None,
             "start_with_window": parts[1] == "sww"}
    return SObj(cls, attrs)


def splitter_shape_ok(A):
    """the contracts below describe splitters whose fh attribute is already a ForecastingHorizon and whose numeric
    parameters are ints / None (what the symbolic inputs range over); other shapes are inlined at call sites"""
    from pyvc.values import is_intlike
    a = A.self.attrs
    if not (isinstance(a.get("fh"), SObj) and a["fh"].cls.name == "ForecastingHorizon"):
        return False
    for k in ("window_length", "step_length", "initial_window"):
        if k in a and a[k] is not None and not is_intlike(a[k]):
            return False
    return True


def valid_params(s):
    a = s.attrs
    c = And(a["window_length"] >= 1, a["step_length"] >= 1)
    if a["initial_window"] is not None:
        c = And(c, a["initial_window"] >= 1)
    return c


def ws_start(s):
    a = s.attrs
    if a["start_with_window"]:
        if a["initial_window"] is not None:
            return ops.simp(Z(a["initial_window"]) + Z(a["step_length"]))
        return a["window_length"]
    return 0


def ws_end(s, y):
    return ops.simp(Z(y.len) - fh_last(s.attrs["fh"]) + 1)


def ws_rejects(A):
    """BaseWindowSplitter._split raises ValueError iff a window does not fit / options clash"""
    a = A.self.attrs
    n = Z(A.y.len)
    fm = fh_last(a["fh"])
    c = a["window_length"] + fm > n
    if a["initial_window"] is not None:
        c = Or(c, a["initial_window"] + fm > n, not a["start_with_window"], a["initial_window"] <= a["window_length"])
    return c


def ws_count(A):
    a = A.self.attrs
    base = rlen(ws_start(A.self), ws_end(A.self, A.y), a["step_length"])
    return ops.simp(base + 1) if a["initial_window"] is not None else base


def ws_item(kind):
    def item(A, k):
        a = A.self.attrs
        fhv = vals(a["fh"])
        if a["initial_window"] is not None:
            iw = a["initial_window"]
            first = Tup(Range(0, iw, kind="ndarray"), Seq(fhv.len, lambda i: ops.simp(Z(iw) + Z(fhv.fn(i)) - 1), kind="ndarray"))
            rest = win_item(kind, A, ops.simp(Z(k) - 1), start=ws_start(A.self), w=a["window_length"], step=a["step_length"], fh=fhv)
            # the k-th item is `first` for k == 0: expressed component-wise
            tr = Seq(If(Eq(k, 0), first.items[0].len, rest.items[0].len),
                     lambda i: If(Eq(k, 0), first.items[0].fn(i), rest.items[0].fn(i)), kind="ndarray")
            te = Seq(fhv.len, lambda i: If(Eq(k, 0), first.items[1].fn(i), rest.items[1].fn(i)), kind="ndarray")
            return Tup(tr, te)
        return win_item(kind, A, k, start=ws_start(A.self), w=a["window_length"], step=a["step_length"], fh=fhv)
    return item


WS_CASES = ["noinit|sww", "noinit|nosww", "init|sww", "init|nosww"]
for _cls, _kind in (("SlidingWindowSplitter", "sliding"), ("ExpandingWindowSplitter", "expanding")):
    contract(f"{SP}::{_cls}._split", "C01,C20", cases=WS_CASES,
             inputs=(lambda cn: lambda B, case: {"self": sym_splitter(B, cn, case), "y": sym_y(B)})(_cls),
             pre=lambda A: valid_params(A.self),
             raises=[("ValueError", ws_rejects)],
             yields_count=ws_count, yields_item=ws_item(_kind),
             invariants={0: lambda S: Eq(S.ycount, ops.simp(Z(S.k) + (1 if S.A.self.attrs["initial_window"] is not None else 0)))},
             frame=lambda A: [A.self], applicable=splitter_shape_ok,
             notes=["_split is defined once in BaseWindowSplitter; it is verified once per concrete subclass against that "
                    "subclass's _split_windows contract (dynamic dispatch resolved through the MRO of the real classes)"])


# ----------------------------------------------------------------------------- BaseSplitter.split
# The public generator: the property statement is stated on its yields (level 2 lemmas below use
# exactly this schema).

def ws_split_point(A, k):
    """split point of the k-th yield (cutoff position + 1)"""
    a = A.self.attrs
    if a["initial_window"] is not None:
        iw = a["initial_window"]
        return If(Eq(k, 0), iw, ops.simp(Z(ws_start(A.self)) + (Z(k) - 1) * Z(a["step_length"])))
    return ops.simp(Z(ws_start(A.self)) + Z(k) * Z(a["step_length"]))


def ws_train_lo(kind, A, k):
    a = A.self.attrs
    sp = ws_split_point(A, k)
    lo = ops.simp(Z(sp) - Z(a["window_length"])) if kind == "sliding" else ops.simp(Z(ws_start(A.self)) - Z(a["window_length"]))
    if a["initial_window"] is not None:
        lo = If(Eq(k, 0), 0, lo)
    return lo


def split_item(kind):
    def item(A, k):
        a = A.self.attrs
        fhv = vals(a["fh"])
        sp = ws_split_point(A, k)
        lo = Max(ws_train_lo(kind, A, k), 0)
        train = Range(lo, Max(0, ops.simp(Z(sp) - Z(lo))), kind="ndarray")
        test = Seq(fhv.len, lambda i: ops.simp(Z(sp) + Z(fhv.fn(i)) - 1), kind="ndarray")
        return Tup(train, test)
    return item


def sym_y_any(B, case):
    from pyvc.values import SSeries
    idx = sym_y(B)
    B.assume(sorted_nondecr(idx))
    if "series" in case:
        n = idx.len
        v = B.arr("yvals", n=n, dtype="real", kind="ndarray")
        return SSeries(idx, v)
    return idx


def yidx(y):
    from pyvc.values import SSeries
    return y.index if isinstance(y, SSeries) else y


for _cls, _kind in (("SlidingWindowSplitter", "sliding"), ("ExpandingWindowSplitter", "expanding")):
    contract(f"{SP}::{_cls}.split", "C01,C20", cases=[c + "|" + yk for c in WS_CASES if c != "init|nosww" for yk in ("index", "series")] + ["init|nosww|index"],
             inputs=(lambda cn: lambda B, case: {"self": sym_splitter(B, cn, case), "y": sym_y_any(B, case)})(_cls),
             pre=lambda A: valid_params(A.self),
             raises=[("ValueError", lambda A: ws_rejects(NS(self=A.self, y=yidx(A.y))))],
             yields_count=lambda A: ws_count(NS(self=A.self, y=yidx(A.y))),
             yields_item=(lambda kd: lambda A, k: split_item(kd)(NS(self=A.self, y=yidx(A.y)), k))(_kind),
             invariants={0: lambda S: Eq(S.ycount, S.k)}, frame=lambda A: [A.self], applicable=splitter_shape_ok)


# ----------------------------------------------------------------------------- get_cutoffs / get_n_splits

def ws_cutoffs_spec(A):
    """cutoffs reported = arange(first split point, end, step) - 1"""
    a = A.self.attrs
    y = yidx(A.y)
    first = a["initial_window"] if a["initial_window"] is not None else ws_start(A.self)
    n = rlen(first, ws_end(A.self, y), a["step_length"])
    return Seq(n, lambda i: ops.simp(Z(first) + Z(i) * Z(a["step_length"]) - 1), kind="ndarray")


for _cls in ("SlidingWindowSplitter", "ExpandingWindowSplitter"):
    contract(f"{SP}::{_cls}.get_cutoffs", "C01", cases=[c + "|index" for c in WS_CASES if c != "init|nosww"] + ["noinit|sww|None"],
             inputs=(lambda cn: lambda B, case: {"self": sym_splitter(B, cn, case), "y": None if case.endswith("None") else sym_y_any(B, case)})(_cls),
             pre=lambda A: valid_params(A.self),
             raises=[("ValueError", lambda A: A.y is None)],
             returns=ws_cutoffs_spec, frame=lambda A: [A.self], applicable=splitter_shape_ok)
    contract(f"{SP}::{_cls}.get_n_splits", "C01", cases=[c + "|index" for c in WS_CASES if c != "init|nosww"] + ["noinit|sww|None"],
             inputs=(lambda cn: lambda B, case: {"self": sym_splitter(B, cn, case), "y": None if case.endswith("None") else sym_y_any(B, case)})(_cls),
             pre=lambda A: valid_params(A.self),
             raises=[("ValueError", lambda A: A.y is None)],
             returns=lambda A: ws_cutoffs_spec(A).len, frame=lambda A: [A.self], applicable=splitter_shape_ok)


# ----------------------------------------------------------------------------- CutoffSplitter

def sym_cutoff_splitter(B, case):
    I = B.I
    mod = I.src.module(SPMOD)
    ok, cls = I.mod_global(mod, "CutoffSplitter")
    m = B.int("len(cutoffs)", 0)
    c = B.arr("cutoffs", n=m, kind="ndarray" if "ndarray" in case else "Int64Index")
    B.assume(ForAll(lambda i: c.fn(i) >= 0, 0, m))
    return SObj(cls, {"fh": sym_fh(B, "fh", nonempty=True, oos=True), "window_length": B.int("w"), "cutoffs": c})


def sorted_cutoffs(A):
    from pyvc.libnp import sort_arr
    from pyvc import spec as _S
    return sort_arr(_S.CUR, A.self.attrs["cutoffs"])


def cs_last(A):
    c = sorted_cutoffs(A)
    return c.fn(ops.simp(Z(c.len) - 1))


def cs_rejects(A):
    a = A.self.attrs
    n = Z(yidx(A.y).len)
    return Or(Eq(a["cutoffs"].len, 0), cs_last(A) >= n, cs_last(A) + fh_last(a["fh"]) >= n)


def cs_item(clip):
    def item(A, k):
        a = A.self.attrs
        c = sorted_cutoffs(A).fn(k)
        w = a["window_length"]
        fhv = vals(a["fh"])
        lo = ops.simp(Z(c) - Z(w) + 1)
        if clip:
            lo = Max(lo, 0)
        train = Range(lo, Max(0, ops.simp(Z(c) + 1 - Z(lo))), kind="ndarray")
        test = Seq(fhv.len, lambda i: ops.simp(Z(c) + Z(fhv.fn(i))), kind="ndarray")
        return Tup(train, test)
    return item


CS_CASES = ["ndarray", "Int64Index"]
contract(f"{SP}::CutoffSplitter._split", "C01,C20", cases=CS_CASES,
         inputs=lambda B, case: {"self": sym_cutoff_splitter(B, case), "y": sym_y(B)},
         pre=lambda A: A.self.attrs["window_length"] >= 1,
         raises=[("ValueError", cs_rejects)],
         yields_count=lambda A: A.self.attrs["cutoffs"].len, yields_item=cs_item(False),
         invariants={0: lambda S: Eq(S.ycount, S.k)}, frame=lambda A: [A.self], applicable=splitter_shape_ok)
contract(f"{SP}::CutoffSplitter.split", "C01,C20", cases=[c + "|" + yk for c in CS_CASES for yk in ("index", "series")],
         inputs=lambda B, case: {"self": sym_cutoff_splitter(B, case), "y": sym_y_any(B, case)},
         pre=lambda A: A.self.attrs["window_length"] >= 1,
         raises=[("ValueError", cs_rejects)],
         yields_count=lambda A: A.self.attrs["cutoffs"].len, yields_item=cs_item(True),
         invariants={0: lambda S: Eq(S.ycount, S.k)}, frame=lambda A: [A.self], applicable=splitter_shape_ok)
contract(f"{SP}::CutoffSplitter.get_cutoffs", "C01", cases=CS_CASES,
         inputs=lambda B, case: {"self": sym_cutoff_splitter(B, case), "y": None},
         raises=[("ValueError", lambda A: Eq(A.self.attrs["cutoffs"].len, 0))],
         returns=sorted_cutoffs, frame=lambda A: [A.self], applicable=splitter_shape_ok)
contract(f"{SP}::CutoffSplitter.get_n_splits", "C01", cases=CS_CASES,
         inputs=lambda B, case: {"self": sym_cutoff_splitter(B, case), "y": None},
         returns=lambda A: A.self.attrs["cutoffs"].len, frame=lambda A: [A.self], applicable=splitter_shape_ok)


# ----------------------------------------------------------------------------- SingleWindowSplitter

def sym_single(B, case):
    I = B.I
    mod = I.src.module(SPMOD)
    ok, cls = I.mod_global(mod, "SingleWindowSplitter")
    return SObj(cls, {"fh": sym_fh(B, "fh", nonempty=True, oos=True), "window_length": None if "wnone" in case else B.int("w")})


def sw_item(A, k):
    a = A.self.attrs
    n = Z(yidx(A.y).len)
    fhv = vals(a["fh"])
    end = ops.simp(n - fh_last(a["fh"]))
    lo = 0 if a["window_length"] is None else ops.simp(end - Z(a["window_length"]))
    train = Range(lo, Max(0, ops.simp(end - Z(lo))), kind="ndarray")
    test = Seq(fhv.len, lambda i: ops.simp(end + Z(fhv.fn(i)) - 1), kind="ndarray")
    return Tup(train, test)


def sw_pre(A):
    a = A.self.attrs
    return True if a["window_length"] is None else a["window_length"] >= 1


def sw_rejects(A):
    """a window (one observation if no length is given) plus the horizon that does not fit is rejected"""
    a = A.self.attrs
    n = Z(yidx(A.y).len)
    w = 1 if a["window_length"] is None else a["window_length"]
    return w + fh_last(a["fh"]) > n


SW_CASES = ["wnone", "wint"]
contract(f"{SP}::SingleWindowSplitter._split", "C01,C20", cases=SW_CASES,
         inputs=lambda B, case: {"self": sym_single(B, case), "y": sym_y(B)}, pre=sw_pre, raises=[("ValueError", sw_rejects)],
         yields_count=lambda A: 1, yields_item=sw_item, frame=lambda A: [A.self], applicable=splitter_shape_ok)
contract(f"{SP}::SingleWindowSplitter.split", "C01,C20", cases=[c + "|" + yk for c in SW_CASES for yk in ("index", "series")],
         inputs=lambda B, case: {"self": sym_single(B, case), "y": sym_y_any(B, case)}, pre=sw_pre, raises=[("ValueError", sw_rejects)],
         yields_count=lambda A: 1, yields_item=sw_item, invariants={0: lambda S: Eq(S.ycount, S.k)}, frame=lambda A: [A.self], applicable=splitter_shape_ok)
contract(f"{SP}::SingleWindowSplitter.get_cutoffs", "C01", cases=[c + "|index" for c in SW_CASES] + ["wint|None"],
         inputs=lambda B, case: {"self": sym_single(B, case), "y": None if case.endswith("None") else sym_y_any(B, case)},
         pre=lambda A: True if A.y is None else sw_pre(A),
         raises=[("ValueError", lambda A: A.y is None)],
         returns=lambda A: Seq(1, lambda i: ops.simp(Z(yidx(A.y).len) - fh_last(A.self.attrs["fh"]) - 1), kind="ndarray"), frame=lambda A: [A.self], applicable=splitter_shape_ok)
contract(f"{SP}::SingleWindowSplitter.get_n_splits", "C01,C20", cases=["wint", "wnone"],
         inputs=lambda B, case: {"self": sym_single(B, case), "y": None},
         raises=[("ValueError", lambda A: Not(sw_pre(A)))], returns=lambda A: 1)


# ----------------------------------------------------------------------------- level 2: the property statement
# Hypotheses are ONLY the contracts above (yield schema split_item / ws_count / ws_cutoffs_spec and the
# raises clause); conclusions are the clauses of C01.

def _window_lemma(kind, clsname):
    def build(case):
        def fn(B):
            s = sym_splitter(B, clsname, case)
            y = sym_y(B)
            A = NS(self=s, y=y)
            a = s.attrs
            B.assume(valid_params(s))
            B.assume(Not(ws_rejects(A)))                  # the generator did not raise
            n = Z(y.len)
            step, w = Z(a["step_length"]), Z(a["window_length"])
            fhv = vals(a["fh"])
            m = Z(fhv.len)
            cnt = ws_count(A)
            k = B.int("k", 0)
            B.assume(k < Z(cnt))
            init = a["initial_window"] is not None
            it = split_item(kind)(A, k)
            it2 = split_item(kind)(A, k + 1)
            train, test = it.items
            sp, sp2 = ws_split_point(A, k), ws_split_point(A, k + 1)
            cutoff = ops.simp(Z(sp) - 1)
            start, end = Z(ws_start(s)), Z(ws_end(s, y))
            base = rlen(ws_start(s), ws_end(s, y), a["step_length"])     # number of regular windows
            kk = ops.simp(k - 1) if init else k                           # index among the regular windows
            # nonlinear hints, each proved as its own obligation
            B.hint("mult-monotone", Implies(And(kk >= 0, kk <= Z(base) - 1), kk * step <= (Z(base) - 1) * step))
            goals = []
            goals.append(("train-ends-at-cutoff", Implies(Z(train.len) > 0, Eq(train.fn(ops.simp(Z(train.len) - 1)), cutoff))))
            goals.append(("train-contiguous", ForAll(lambda i: Eq(train.fn(i + 1), ops.simp(Z(train.fn(i)) + 1)), 0, ops.simp(Z(train.len) - 1))))
            goals.append(("test-is-cutoff-plus-fh", ForAll(lambda i: Eq(test.fn(i), ops.simp(cutoff + Z(fhv.fn(i)))), 0, m)))
            goals.append(("positions-inside-series", And(ForAll(lambda i: And(train.fn(i) >= 0, train.fn(i) < n), 0, train.len),
                                                         ForAll(lambda i: And(test.fn(i) >= 0, test.fn(i) < n), 0, m))))
            goals.append(("no-train-position-at-or-after-test", ForAll(lambda i: ForAll(lambda j: train.fn(i) < test.fn(j), 0, m, "j"), 0, train.len)))
            goals.append(("cutoffs-advance-by-step", Implies(k + 1 < Z(cnt), Eq(ops.simp(Z(sp2) - Z(sp)), step))))
            first = a["initial_window"] if init else (a["window_length"] if a["start_with_window"] else 0)
            goals.append(("first-cutoff-is-first-feasible", Implies(Eq(k, 0), Eq(sp, first))))
            goals.append(("last-cutoff-is-last-feasible", Implies(Eq(k + 1, Z(cnt)), Z(sp) + step + fh_last(a["fh"]) - 1 > n - 1)))
            if kind == "sliding":
                if a["start_with_window"]:
                    goals.append(("sliding-window-has-requested-length",
                                  Eq(train.len, (If(Eq(k, 0), a["initial_window"], w) if init else w))))
                else:
                    goals.append(("sliding-window-truncated-at-series-start", Eq(train.len, Min(w, sp))))
            else:
                goals.append(("expanding-window-starts-at-first-observation", Implies(Z(train.len) > 0, Eq(train.fn(0), 0))))
            # reported cutoffs / number of splits are exactly those yielded
            if not (init and not a["start_with_window"]):
                cs = ws_cutoffs_spec(A)
                if init:
                    # rlen(iw, end, step) == 1 + rlen(iw + step, end, step)  because iw < end
                    B.hint("range-peel-first", Eq(cs.len, cnt))
                goals.append(("n_splits-equals-number-of-yields", Eq(cs.len, cnt)))
                goals.append(("reported-cutoff-equals-yielded-cutoff", Eq(cs.fn(k), cutoff)))
            return goals
        return fn
    return build


for _cls, _kind in (("SlidingWindowSplitter", "sliding"), ("ExpandingWindowSplitter", "expanding")):
    for _case in ("noinit|sww", "noinit|nosww", "init|sww"):
        if _kind == "expanding" and _case.startswith("init"):
            continue     # ExpandingWindowSplitter.__init__ always stores initial_window=None (its own
            #              `initial_window` argument is stored as window_length): configuration unreachable
        Lemma(f"C01/{_cls}[{_case}]", "C01", _window_lemma(_kind, _cls)(_case),
              uses=[f"{SP}::{_cls}.split", f"{SP}::{_cls}.get_cutoffs", f"{SP}::{_cls}.get_n_splits"])


def _cutoff_lemma(B):
    s = sym_cutoff_splitter(B, "ndarray")
    y = sym_y(B)
    A = NS(self=s, y=y)
    a = s.attrs
    B.assume(a["window_length"] >= 1)
    B.assume(Not(cs_rejects(A)))
    n = Z(y.len)
    fhv = vals(a["fh"])
    m = Z(fhv.len)
    k = B.int("k", 0)
    B.assume(k < Z(a["cutoffs"].len))
    c = sorted_cutoffs(A)
    B.assume(ForAll(lambda i: c.fn(i) >= 0, 0, c.len))      # sort is a permutation of non-negative cutoffs
    train, test = cs_item(True)(A, k).items
    ck = c.fn(k)
    last = cs_last(A)
    return [("train-ends-at-cutoff", And(Z(train.len) > 0, Eq(train.fn(ops.simp(Z(train.len) - 1)), ck))),
            ("test-is-cutoff-plus-fh", ForAll(lambda i: Eq(test.fn(i), ops.simp(Z(ck) + Z(fhv.fn(i)))), 0, m)),
            ("positions-inside-series", And(ForAll(lambda i: And(train.fn(i) >= 0, train.fn(i) < n), 0, train.len),
                                            ForAll(lambda i: And(test.fn(i) >= 0, test.fn(i) < n), 0, m))),
            ("no-train-position-at-or-after-test", ForAll(lambda i: ForAll(lambda j: train.fn(i) < test.fn(j), 0, m, "j"), 0, train.len)),
            ("window-has-requested-length-when-it-fits", Implies(Z(ck) - Z(a["window_length"]) + 1 >= 0, Eq(train.len, a["window_length"])))]


Lemma("C01/CutoffSplitter", "C01", _cutoff_lemma, uses=[f"{SP}::CutoffSplitter.split", f"{SP}::CutoffSplitter.get_cutoffs"])


def _single_lemma(case):
    def fn(B):
        s = sym_single(B, case)
        y = sym_y(B)
        A = NS(self=s, y=y)
        B.assume(sw_pre(A))
        B.assume(Not(sw_rejects(A)))
        a = s.attrs
        n = Z(y.len)
        fhv = vals(a["fh"])
        m = Z(fhv.len)
        train, test = sw_item(A, 0).items
        cutoff = ops.simp(n - fh_last(a["fh"]) - 1)
        goals = [("train-ends-at-cutoff", Implies(Z(train.len) > 0, Eq(train.fn(ops.simp(Z(train.len) - 1)), cutoff))),
                 ("test-is-cutoff-plus-fh", ForAll(lambda i: Eq(test.fn(i), ops.simp(cutoff + Z(fhv.fn(i)))), 0, m)),
                 ("positions-inside-series", And(ForAll(lambda i: And(train.fn(i) >= 0, train.fn(i) < n), 0, train.len),
                                                 ForAll(lambda i: And(test.fn(i) >= 0, test.fn(i) < n), 0, m))),
                 ("no-train-position-at-or-after-test", ForAll(lambda i: ForAll(lambda j: train.fn(i) < test.fn(j), 0, m, "j"), 0, train.len)),
                 ("last-test-position-is-last-observation", Eq(test.fn(ops.simp(m - 1)), n - 1))]
        if a["window_length"] is not None:
            goals.append(("window-has-requested-length", Eq(train.len, a["window_length"])))
        else:
            goals.append(("window-starts-at-first-observation", Implies(Z(train.len) > 0, Eq(train.fn(0), 0))))
        return goals
    return fn


for _case in SW_CASES:
    Lemma(f"C01/SingleWindowSplitter[{_case}]", "C01", _single_lemma(_case), uses=[f"{SP}::SingleWindowSplitter.split"])


# ----------------------------------------------------------------------------- temporal_train_test_split / _split_by_fh

def sym_series(B, name="y", n=None, l0=None, nonempty=True):
    """pd.Series with a contiguous integer index l0 .. l0+n-1 (DESIGN assumption 4)"""
    from pyvc.values import SSeries
    n = B.int("n", 1 if nonempty else 0) if n is None else n
    l0 = B.int("l0") if l0 is None else l0
    idx = SArr((n,), lambda i: ops.simp(Z(l0) + Z(i)), "int", "Int64Index", closed=(l0, 1))
    v = B.arr(name + ".values", n=n, dtype="real", kind="ndarray")
    return SSeries(idx, v)


def sym_frame(B, like, name="X"):
    from pyvc.values import SFrame
    n = like.index.len
    c = B.int("ncols", 1)
    v = B.arr(name + ".values", shape=(n, c), dtype="real", kind="ndarray")
    return SFrame(like.index, v)


def rows(s, start, count):
    from pyvc.values import SSeries, SFrame
    l0 = s.index.closed[0]
    idx = Range(ops.simp(Z(l0) + Z(start)), count, kind="Int64Index")
    if isinstance(s, SSeries):
        return SSeries(idx, Seq(count, lambda i: s.values.fn(ops.simp(Z(start) + Z(i))), dtype="real", kind="ndarray"))
    return SFrame(idx, SArr((count, s.values.shape[1]), lambda i, j: s.values.fn(ops.simp(Z(start) + Z(i)), j), "real", "ndarray"))


def rows_at_labels(s, labels):
    from pyvc.values import SSeries
    l0 = s.index.closed[0]
    return SSeries(Seq(labels.len, labels.fn, kind="Int64Index"),
                   Seq(labels.len, lambda i: s.values.fn(ops.simp(Z(labels.fn(i)) - Z(l0))), dtype="real", kind="ndarray"))


def _sbf_inputs(B, case):
    rel, wx = case.split("|")
    y = sym_series(B)
    fh = sym_fh(B, "fh", relative=(rel == "relative"), nonempty=True, oos=(rel == "relative"))
    d = {"y": y, "fh": fh, "X": sym_frame(B, y) if wx == "X" else None}
    return d


def _sbf_pre(A):
    n, l0 = Z(A.y.index.len), Z(A.y.index.closed[0])
    v = vals(A.fh)
    if A.fh.attrs["_is_relative"]:
        return fh_last(A.fh) < n
    return And(v.fn(0) >= l0, fh_last(A.fh) <= l0 + n - 1)       # requested time points exist in the series


def _sbf_returns(A):
    n, l0 = Z(A.y.index.len), Z(A.y.index.closed[0])
    v = vals(A.fh)
    if A.fh.attrs["_is_relative"]:
        fm = fh_last(A.fh)
        ntrain = ops.simp(n - fm)
        cutoff = ops.simp(l0 + ntrain - 1)
        labels = Seq(v.len, lambda i: ops.simp(cutoff + Z(v.fn(i))))
        ntest = fm
    else:
        ntrain = ops.simp(Z(v.fn(0)) - l0)
        labels = v
        ntest = ops.simp(fh_last(A.fh) - Z(v.fn(0)) + 1)
    out = [rows(A.y, 0, ntrain), rows_at_labels(A.y, labels)]
    if A.X is not None:
        out += [rows(A.X, 0, ntrain), rows(A.X, ntrain, ntest)]
    return Tup(*out)


contract(f"{SP}::_split_by_fh", "C01", cases=["relative|noX", "relative|X", "absolute|noX", "absolute|X"],
         inputs=_sbf_inputs, pre=_sbf_pre, returns=_sbf_returns,
         notes=["series index modelled as a contiguous integer range (DESIGN assumption 4)"])


def _tts_inputs(B, case):
    d = _sbf_inputs(B, "relative|" + ("X" if "X" in case else "noX"))
    d["test_size"] = B.int("test_size", 1) if "sizes" in case else None
    d["train_size"] = None
    if "nofh" in case:
        d["fh"] = None
    return d


contract(f"{SP}::temporal_train_test_split", "C01,C20", cases=["fh|noX", "fh|X", "fh+sizes|noX"],
         inputs=_tts_inputs, pre=lambda A: True if A.fh is None else _sbf_pre(A),
         raises=[("ValueError", lambda A: A.fh is not None and (A.test_size is not None or A.train_size is not None))],
         returns=lambda A: _sbf_returns(NS(y=A.y, fh=A.fh, X=A.X)),
         notes=["without fh the function delegates to sklearn.model_selection.train_test_split(shuffle=False): assumed "
                "contract (prefix / suffix), checked only by the bounded tier"])
