"""C10: updating is equivalent to having observed (sktime/forecasting/base/_sktime.py)."""
from pyvc.spec import *   # noqa
from pyvc.values import SArr, SList, SObj, Opaque, SSeries, SFrame, AbstractObj, SDict
from pyvc.libmodels import Event
from pyvc import ops
import z3
from contracts.C02_fh import sym_fh, vals
from contracts.C01_split import sym_series, sym_frame, sym_splitter, split_item, ws_count, ws_rejects, valid_params, rows, fh_last
from contracts.C07_evaluate import trace

SK = "sktime/forecasting/base/_sktime.py"
Z = ops.to_z3


def recorder(name, ret=None):
    def f(I, args, kwargs):
        ev = Event(RECV[0], name, args, kwargs, None, getattr(I.ctx, "loop_k", None))
        ev.result = ret(I, ev) if ret else RECV[0]
        I.ctx.trace.append(ev)
        return ev.result
    f._pyvc_native = True
    return f


RECV = [None]


def fitted_forecaster(B, clsname="NaiveForecaster", module="sktime.forecasting.naive", abstract_methods=("fit",), free_cutoff=False,
                      ctor_args=()):
    """a fitted forecaster of a concrete class whose listed methods are abstract (recorded in the ghost trace)"""
    I = B.I
    ok, cls = I.mod_global(I.src.module(module), clsname)
    obj = I.instantiate(cls, list(ctor_args), {})
    y = sym_series(B, "y_old", n=B.int("n_old", 1), l0=B.int("l0"))
    cutoff = ops.simp(Z(y.index.closed[0]) + Z(y.index.len) - 1)
    if free_cutoff:
        # reachable after update_predict: the cutoff was restored but the data seen meanwhile is remembered
        cutoff = B.int("cutoff")
        B.assume(And(cutoff >= Z(y.index.closed[0]), cutoff <= Z(y.index.closed[0]) + Z(y.index.len) - 1))
    obj.attrs.update({"_y": y, "_X": None, "_cutoff": cutoff, "_fh": sym_fh(B, "fh", nonempty=True, oos=True), "_is_fitted": True,
                      "window_length_": B.int("w_", 1)})
    RECV[0] = obj
    for m in abstract_methods:
        if m == "predict" or m == "_predict":
            obj.attrs[m] = recorder(m, lambda I2, ev: Opaque(f"forecast@{len(I2.ctx.trace)}", prov=ev))
        else:
            obj.attrs[m] = recorder(m)
    return obj, y


def next_batch(B, y_old, name="y_new", may_overlap=True, allow_empty=False):
    """data arriving in time order: starts inside or right after what is remembered, no gap"""
    n, l0 = Z(y_old.index.len), Z(y_old.index.closed[0])
    m = B.int("n_new", 0 if allow_empty else 1)
    b0 = B.int("l0_new")
    if may_overlap:
        B.assume(And(b0 >= l0, b0 <= l0 + n))        # may also END before the remembered data ends (a revised chunk)
    else:
        B.assume(b0 == l0 + n)
    return sym_series(B, name, n=m, l0=b0)


def union_spec(y_old, y_new):
    """union of the labels, later (new) values win on overlap"""
    a0, an = Z(y_old.index.closed[0]), Z(y_old.index.len)
    b0, bn = Z(y_new.index.closed[0]), Z(y_new.index.len)
    lo = a0
    hi = Max(ops.simp(b0 + bn), ops.simp(a0 + an))
    n = ops.simp(Z(hi) - lo)
    idx = Range(lo, n, kind="Int64Index")
    v = Seq(n, lambda i: If(And(lo + Z(i) >= b0, lo + Z(i) < b0 + bn), y_new.values.fn(ops.simp(lo + Z(i) - b0)), y_old.values.fn(i)),
            dtype="real", kind="ndarray")
    return SSeries(idx, v)


def _upd_yx_post(A, r):
    s = A.self
    new_empty = Eq(A.y.index.len, 0)
    return And(Implies(Not(new_empty), And(equiv(s.attrs["_y"], union_spec(s.ghost_y0, A.y)),
                                           Eq(s.attrs["_cutoff"], ops.simp(Z(A.y.index.closed[0]) + Z(A.y.index.len) - 1)))),
               Implies(new_empty, And(equiv(s.attrs["_y"], s.ghost_y0), Eq(s.attrs["_cutoff"], s.ghost_cutoff0))))


def _upd_yx_inputs(B, case):
    obj, y_old = fitted_forecaster(B, free_cutoff=True)
    obj.ghost_y0, obj.ghost_cutoff0 = y_old, obj.attrs["_cutoff"]
    return {"self": obj, "y": next_batch(B, y_old, allow_empty=(case == "maybe-empty")), "X": None}


contract(f"{SK}::_SktimeForecaster._update_y_X", "C10,C03", cases=["nonempty", "maybe-empty"], inputs=_upd_yx_inputs,
         ensures=[("remembers-union-later-values-win-cutoff-is-end-of-new-data", _upd_yx_post)],
         notes=["batches arrive in time order without gap (overlap allowed); Series.combine_first model"])


def _update_inputs(B, case):
    obj, y_old = fitted_forecaster(B, free_cutoff=True)
    obj.ghost_y0, obj.ghost_cutoff0 = y_old, obj.attrs["_cutoff"]
    up = {"params": True, "noparams": False, "sym": B.bool("update_params")}[case.split("|")[0]]
    if case.endswith("unfitted"):
        obj.attrs["_is_fitted"] = False
    return {"self": obj, "y": next_batch(B, y_old), "X": None, "update_params": up}


def _update_post(A, r):
    """refit on the UNION of everything observed iff update_params; otherwise no fitted state is touched"""
    s = A.self
    fits = [e for e in trace() if e.method == "fit"]
    u = union_spec(s.ghost_y0, A.y)
    refit = And(len(fits) == 1, equiv(fits[0].arg(0), u) if fits else False, (fits[0].arg(2) is s.attrs["_fh"]) if fits else False)
    return And(r is s, equiv(s.attrs["_y"], u), Eq(s.attrs["_cutoff"], ops.simp(Z(A.y.index.closed[0]) + Z(A.y.index.len) - 1)),
               If(A.update_params, refit, len(fits) == 0))


contract(f"{SK}::_SktimeForecaster.update", "C10", cases=["params", "noparams", "sym", "sym|unfitted"], inputs=_update_inputs,
         raises=[("NotFittedError", lambda A: A.self.attrs["_is_fitted"] is False)],
         ensures=[("refit-on-union-iff-update_params", _update_post)],
         notes=["the forecaster's own fit is abstract here (recorded): 'same forecasts as a fresh forecaster fitted on y1 followed by y2' "
                "follows for every forecaster whose fit is a function of its arguments (assumption: deterministic fit)"])


# ----------------------------------------------------------------------------- update_predict: moving cutoff

def _pmc_inputs(B, case):
    obj, y_old = fitted_forecaster(B, abstract_methods=("_update_predict_single",))
    def _ups(I2, ev):
        # what every single update-and-predict step does to the cutoff: it moves to the end of the batch it was given
        w = ev.arg(0)
        if isinstance(w, SSeries):
            obj.attrs["_cutoff"] = w.index.fn(ops.simp(Z(w.index.len) - 1))
        return Opaque("y_pred", prov=ev)
    obj.attrs["_update_predict_single"] = recorder("_update_predict_single", _ups)
    obj.ghost_cutoff0 = obj.attrs["_cutoff"]
    y = next_batch(B, y_old, "y", may_overlap=False)
    cv = sym_splitter(B, "SlidingWindowSplitter", "noinit|nosww" if "nosww" in case else "noinit|sww")
    return {"self": obj, "y": y, "cv": cv, "X": None, "update_params": B.bool("update_params"), "return_pred_int": False}


def _pmc_events(S, evs):
    """window k of the splitter is handed to ONE single update-and-predict step, with the splitter's horizon"""
    A = S.A
    evs = [e for e in evs if e.obj is A.self]
    if len(evs) != 1 or evs[0].method != "_update_predict_single":
        return False
    kind = "sliding"
    train, test = split_item(kind)(NS(self=A.cv, y=A.y.index), S.k).items
    want = rows(A.y, train.closed[0], train.len)
    fh = evs[0].arg(1)
    # the forecast of this step and the cutoff it was made from (= end of window k) are collected, in that pairing
    yp, cs = S.y_preds, S.cutoffs
    ypa = yp.appended if isinstance(yp, Opaque) else yp.items
    csa = cs.appended if isinstance(cs, Opaque) else cs.items
    if len(ypa) != 1 or len(csa) != 1 or ypa[0] is not evs[0].result:
        return False
    last = want.index.fn(ops.simp(Z(want.index.len) - 1))
    return And(equiv(evs[0].arg(0), want), fh is S.fh, evs[0].kwargs.get("update_params") is A.update_params, Eq(csa[0], last))


def _pmc_havoc_list(I, S):
    n = I.ctx.fresh_int("nlist")
    I.ctx.assume(n >= 0)
    o = Opaque("accumulated list")
    o.listlen = n
    o.appended = []
    o.opaque_methods = {"append": lambda I2, recv, a, kw: o.appended.append(a[0])}
    return o


def _pmc_havoc_self(I, S):
    """the loop body moves the cutoff (through the single update-and-predict step): after an unknown number of earlier
    iterations it is an unknown time point, so only the restoring code after the loop can establish `cutoff-restored`"""
    obj = S.self
    obj.attrs["_cutoff"] = I.ctx.fresh_int("cutoff_after_earlier_iterations")
    return obj


contract(f"{SK}::_format_moving_cutoff_predictions", "C10", assumed=True,
         returns=lambda A: Opaque("formatted moving-cutoff predictions"),
         notes=["ASSUMED: pandas concat / DataFrame(...).T of the collected forecasts with the cutoffs as column labels"])

contract(f"{SK}::_SktimeForecaster._predict_moving_cutoff", "C10,C03", cases=["sww", "nosww"], inputs=_pmc_inputs,
         pre=lambda A: valid_params(A.cv),
         raises=[("ValueError", lambda A: ws_rejects(NS(self=A.cv, y=A.y.index)))],
         ensures=[("cutoff-restored", lambda A, r: Eq(A.self.attrs["_cutoff"], A.self.ghost_cutoff0))],
         on_raise=[("cutoff-restored", lambda A: Eq(A.self.attrs["_cutoff"], A.self.ghost_cutoff0))],
         invariants={0: lambda S: True}, events={0: _pmc_events},
         loop_havoc={0: {"y_preds": _pmc_havoc_list, "cutoffs": _pmc_havoc_list, "self": _pmc_havoc_self}},
         notes=["_format_moving_cutoff_predictions (pandas concat / DataFrame of the collected forecasts) is assumed: "
                "labelling of the columns by the cutoffs is checked by the bounded tier only"])


# ----------------------------------------------------------------------------- update_predict_single == update; predict

def _ups_inputs(window):
    def inputs(B, case):
        obj, y_old = fitted_forecaster(B, abstract_methods=("update", "_predict", "predict"))
        return {"self": obj, "y": next_batch(B, y_old), "fh": obj.attrs["_fh"], "X": None, "update_params": B.bool("update_params")}
    return inputs


def _ups_post(pred_name):
    def post(A, r):
        evs = [e for e in trace() if e.obj is A.self]
        if [e.method for e in evs] != ["update", pred_name]:
            return False
        u, p = evs
        return And(equiv(u.arg(0), A.y), u.arg(1) is A.X, u.kwargs.get("update_params") is A.update_params, p.arg(0) is A.fh, r is p.result)
    return post


contract(f"{SK}::_SktimeForecaster._update_predict_single", "C10", cases=["-"], inputs=_ups_inputs(False),
         ensures=[("is-update-followed-by-predict-with-the-same-options", _ups_post("predict"))])
contract(f"{SK}::_BaseWindowForecaster._update_predict_single", "C10", cases=["-"], inputs=_ups_inputs(True),
         ensures=[("is-update-followed-by-predict-with-the-same-options", _ups_post("_predict"))])


# ----------------------------------------------------------------------------- transformers' update forwards its options
DT = "sktime/transformations/series/detrend/_detrend.py"
from contracts.C07_evaluate import forecaster as abstract_forecaster


def _dt_inputs(B, case):
    I = B.I
    ok, cls = I.mod_global(I.src.module("sktime.transformations.series.detrend._detrend"), "Detrender")
    inner = abstract_forecaster(B, "trend_forecaster")
    obj = I.instantiate(cls, [inner], {})
    fitted = abstract_forecaster(B, "fitted_trend_forecaster")
    obj.attrs.update({"forecaster_": fitted, "_is_fitted": case != "unfitted"})
    if case == "unfitted":
        obj.attrs["forecaster_"] = None
    zz = sym_series(B, "z", nonempty=(case != "unfitted-maybe-empty"))
    if case == "unfitted-maybe-empty":
        obj.attrs["_is_fitted"] = False
        obj.attrs["forecaster_"] = None
    return {"self": obj, "Z": zz, "X": None, "update_params": B.bool("update_params")}


contract(f"{DT}::Detrender.update", "C10,C04", cases=["fitted", "unfitted", "unfitted-maybe-empty"], inputs=_dt_inputs,
         raises=[("NotFittedError", lambda A: A.self.attrs["_is_fitted"] is False)],
         ensures=[("forwards-data-and-update_params-to-the-trend-forecaster",
                   lambda A, r: (lambda u: And(len(u) == 1, equiv(u[0].arg(0), A.Z) if u else False,
                                               (u[0].kwargs.get("update_params") is A.update_params) if u else False, r is A.self))(
                       [e for e in trace() if e.obj is A.self.attrs["forecaster_"] and e.method == "update"]))])
