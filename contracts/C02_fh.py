"""C02: ForecastingHorizon conversions (sktime/forecasting/base/_fh.py).

Class invariant wf(fh): `_values` is an integer pandas index (Int64Index / RangeIndex), pairwise
strictly increasing; `_is_relative` is a bool.  __init__ establishes it for every input the
property quantifies over, every method preserves it (each builds its result through _new ->
__init__ -> _check_values, whose real code is executed again on the result).
"""
from pyvc.spec import *   # noqa
from pyvc.values import SArr, SList, SObj, Opaque, is_intlike
from pyvc import ops
import z3

FH = "sktime/forecasting/base/_fh.py"
FHMOD = "sktime.forecasting.base._fh"

# --------------------------------------------------------------------------- builders ----


def fh_class(I):
    mod = I.src.module(FHMOD)
    ok, cls = I.mod_global(mod, "ForecastingHorizon")
    # run the real __new__ once so that the delegated index methods are installed on the class
    if "__getitem__" not in cls.members:
        I.call_function(cls.members["__new__"], [cls], {})
    return cls


def mk_fh(I, values, is_relative, structural=True):
    o = SObj(fh_class(I), {"_values": values, "_is_relative": is_relative})
    o.structural = structural
    return o


def sym_fh(B, name="fh", relative=True, kind="Int64Index", nonempty=False, oos=False):
    """symbolic well-formed horizon"""
    n = B.int(f"len({name})", 1 if nonempty else 0)
    v = B.arr(name, n=n, kind=kind)
    B.assume(strictly_increasing(v))
    if oos:
        B.assume(ForAll(lambda i: v.fn(i) >= 1, 0, n))
    # the object is produced by the REAL constructor, so that it carries exactly the attributes
    # __init__ establishes (values are already sorted and distinct: _check_values is the identity)
    I = B.I
    cls = fh_class(I)
    frozen, I.ctx.frozen = I.ctx.frozen, None
    try:
        o = I.instantiate(cls, [v, relative], {})
    finally:
        I.ctx.frozen = frozen
    return o


def vals(fh):
    return fh.attrs["_values"]


def is_fh(x):
    return isinstance(x, SObj) and x.cls.name == "ForecastingHorizon"


VALUE_CASES = ["int", "list", "ndarray", "Int64Index", "RangeIndex+1", "RangeIndex-1", "RangeIndexStep+",
               "RangeIndexStep-", "list-fractional", "ndarray-float-integral", "PeriodIndex", "DatetimeIndex", "str",
               "float", "None", "tuple", "Float64Index", "bool"]
INT_SEQ = ("list", "ndarray", "Int64Index", "RangeIndex+1", "RangeIndex-1", "RangeIndexStep+", "RangeIndexStep-")


def sym_values(B, case, name="values"):
    from fractions import Fraction
    if case == "int":
        return B.int(name)
    if case == "bool":
        return B.bool(name)
    if case in ("list", "ndarray", "Int64Index"):
        return B.arr(name, kind=case)
    if case == "tuple":
        return B.arr(name, kind="tuple")
    if case in ("RangeIndex+1", "RangeIndex-1"):
        n = B.int(f"len({name})", 0)
        start = B.int(f"{name}.start")
        st = 1 if case.endswith("+1") else -1
        return SArr((n,), lambda i: ops.simp(z3.IntVal(0) + start + st * ops.to_z3(i)), "int", "RangeIndex", closed=(start, st))
    if case in ("RangeIndexStep+", "RangeIndexStep-"):
        a = B.arr(name, kind="RangeIndex")      # |step| >= 2: only monotonicity matters
        B.assume(strictly_increasing(a) if case.endswith("+") else strictly_decreasing(a))
        return a
    if case == "list-fractional":
        return SList([B.int(name + "0"), Fraction(3, 2)], "list")
    if case == "ndarray-float-integral":
        a = B.arr(name, dtype="real", kind="ndarray")
        return a
    if case in ("PeriodIndex", "DatetimeIndex", "Float64Index"):
        o = Opaque(case)
        o.typath = "pandas." + case
        return o
    if case == "str":
        return "abc"
    if case == "float":
        return B.real(name)
    if case == "None":
        return None
    raise KeyError(case)


def is_sorted_perm_of(res, a):
    """res is the sorted rearrangement of a (both 1-d int): same length, pairwise strictly
    increasing, every element of a occurs in res and vice versa"""
    n = Len(a)
    return And(Eq(Len(res), n), strictly_increasing(res),
               ForAll(lambda i: Exists(lambda j: Eq(At(res, j), At(a, i)), 0, n), 0, n),
               ForAll(lambda j: Exists(lambda i: Eq(At(res, j), At(a, i)), 0, n), 0, n, "jj"))


def as_index_arr(values, case):
    if case in ("int", "bool"):
        return ops.arr_from_items([values], kind="Int64Index")
    return values


def check_values_raises_type(case):
    return case in ("str", "float", "None", "tuple", "Float64Index", "bool") or case in ("list-fractional",)


# --------------------------------------------------------------------------- _check_values

def _cv_inputs(B, case):
    return {"values": sym_values(B, case)}


contract(f"{FH}::_check_values", "C02,C20,C03", cases=[c for c in VALUE_CASES if c not in ("PeriodIndex", "DatetimeIndex", "ndarray-float-integral", "bool")],
         inputs=_cv_inputs, modular=False,
         raises=[("TypeError", lambda A: isinstance(A.values, (str, tuple)) or A.values is None or
                  (isinstance(A.values, Opaque)) or (isinstance(A.values, SArr) and A.values.kind == "tuple") or
                  (not isinstance(A.values, (SArr, SList)) and not is_intlike(A.values)) or
                  (isinstance(A.values, SList) and any(not is_intlike(x) for x in A.values.items))),
                 ("ValueError", lambda A: Not(pairwise_distinct(A.values)) if isinstance(A.values, SArr) and A.values.kind != "tuple" else False)],
         ensures=[("sorted-permutation", lambda A, r: is_sorted_perm_of(r, A.values if isinstance(A.values, SArr) else ops.arr_from_items([A.values]))),
                  ("identity-on-sorted", lambda A, r: Implies(strictly_increasing(A.values), equiv(r, A.values)) if isinstance(A.values, SArr) else True),
                  ("index-type", lambda A, r: isinstance(r, SArr) and r.kind in ("Int64Index", "RangeIndex"))],
         notes=["bool is a subclass of int in Python: ForecastingHorizon(True) is accepted as the step 1 by the code; "
                "the property does not list bool among the supported inputs, case excluded from the quantifier"])


# --------------------------------------------------------------------------- __init__ -----

def _init_cases():
    out = []
    for v in VALUE_CASES:
        if v in ("ndarray-float-integral", "bool", "PeriodIndex", "DatetimeIndex"):
            continue          # Period/Datetime branches are outside the integer model (DESIGN C02)
        for r in ("rel", "abs", "notbool"):
            if r == "notbool" and v != "list":
                continue
            out.append(f"{v}|{r}")
    return out


def _init_inputs(B, case):
    v, r = case.split("|")
    I = B.I
    self = SObj(fh_class(I), {})
    return {"self": self, "values": sym_values(B, v), "is_relative": {"rel": True, "abs": False, "notbool": 1}[r]}


def _init_type_error(A):
    v = A.values
    if not isinstance(A.is_relative, bool):
        return True
    if isinstance(v, Opaque):
        if v.tag == "Float64Index":
            return True
        return A.is_relative          # Period/Datetime indexes are absolute-only
    if isinstance(v, SArr):
        return v.kind == "tuple"
    if isinstance(v, SList):
        return any(not is_intlike(x) for x in v.items)
    return not is_intlike(v)


def _init_post(A, r):
    v = A.values
    if isinstance(v, Opaque):
        return A.self.attrs["_values"] is v and A.self.attrs["_is_relative"] is A.is_relative
    src = v if isinstance(v, SArr) else ops.arr_from_items([v])
    return And(is_sorted_perm_of(A.self.attrs["_values"], src), A.self.attrs["_is_relative"] is A.is_relative)


contract(f"{FH}::ForecastingHorizon.__init__", "C02,C20,C03", cases=_init_cases(), inputs=_init_inputs, modular=False,
         raises=[("TypeError", _init_type_error),
                 ("ValueError", lambda A: Not(pairwise_distinct(A.values)) if isinstance(A.values, SArr) and A.values.kind != "tuple" else False)],
         ensures=[("stored-sorted", _init_post)],
         notes=["fractional values: the rejection comes from pd.Int64Index(values, dtype=int) -- library model "
                "(pandas 1.x raises TypeError for non-integral floats); the case 'list-fractional' exercises it"])


# --------------------------------------------------------------------------- methods ------

def _self_inputs(extra=None, kinds=("Int64Index", "RangeIndex")):
    def inputs(B, case):
        parts = case.split("|")
        rel = parts[0] == "rel"
        kind = parts[1] if len(parts) > 1 else "Int64Index"
        d = {"self": sym_fh(B, "fh", relative=rel, kind=kind)}
        if extra:
            d.update(extra(B, case))
        return d
    return inputs


SELF_CASES = ["rel|Int64Index", "abs|Int64Index", "rel|RangeIndex", "abs|RangeIndex"]
CUT = lambda B, case: {"cutoff": B.int("cutoff")}          # noqa: E731
CUTN = lambda B, case: {"cutoff": B.int("cutoff") if case.split("|")[0] == "abs" or "cut" in case else None}   # noqa: E731


def rel_vals(A):
    """the relative steps of self for A.cutoff (spec function)"""
    v = vals(A.self)
    if A.self.attrs["_is_relative"]:
        return v
    return Seq(v.len, lambda i: ops.simp(ops.to_z3(v.fn(i)) - ops.to_z3(A.cutoff)), kind="Int64Index")


def abs_vals(A):
    v = vals(A.self)
    if not A.self.attrs["_is_relative"]:
        return v
    return Seq(v.len, lambda i: ops.simp(ops.to_z3(v.fn(i)) + ops.to_z3(A.cutoff)), kind="Int64Index")


def new_fh_result(values_fn, relative_fn):
    """result builder for modular use: a fresh well-formed horizon with the specified values"""
    def result(I, A):
        return mk_fh(I, values_fn(A), relative_fn(A), structural=False)
    return result


def fh_result_is(values_fn, relative_fn):
    def ens(A, r):
        return And(is_fh(r), equiv(vals(r), values_fn(A)), r.attrs["_is_relative"] is relative_fn(A)) if is_fh(r) else False
    return ens


def need_cutoff(A):
    return A.cutoff is None


contract(f"{FH}::ForecastingHorizon.to_relative", "C02,C03", cases=SELF_CASES + ["rel|Int64Index|nocut", "abs|Int64Index|nocut"],
         frame=lambda A: [A.self], inputs=_self_inputs(lambda B, case: {"cutoff": None if "nocut" in case else B.int("cutoff")}),
         raises=[("ValueError", lambda A: (not A.self.attrs["_is_relative"]) and A.cutoff is None)],
         result=new_fh_result(rel_vals, lambda A: True),
         ensures=[("relative-steps", fh_result_is(rel_vals, lambda A: True))])

contract(f"{FH}::ForecastingHorizon.to_absolute", "C02,C03", cases=SELF_CASES + ["rel|Int64Index|nocut", "abs|Int64Index|nocut"],
         frame=lambda A: [A.self], inputs=_self_inputs(lambda B, case: {"cutoff": None if "nocut" in case else B.int("cutoff")}),
         raises=[("ValueError", lambda A: A.self.attrs["_is_relative"] and A.cutoff is None)],
         result=new_fh_result(abs_vals, lambda A: False),
         ensures=[("cutoff-plus-steps", fh_result_is(abs_vals, lambda A: False))])


def _abs_int_vals(A):
    a = abs_vals(A)
    return Seq(a.len, lambda i: ops.simp(ops.to_z3(a.fn(i)) - ops.to_z3(A.start)), kind="Int64Index")


contract(f"{FH}::ForecastingHorizon.to_absolute_int", "C02,C03", cases=SELF_CASES,
         frame=lambda A: [A.self], inputs=_self_inputs(lambda B, case: {"start": B.int("start"), "cutoff": B.int("cutoff")}),
         result=new_fh_result(_abs_int_vals, lambda A: False),
         ensures=[("zero-based-from-start", fh_result_is(_abs_int_vals, lambda A: False))])


def _mask(cmp):
    def f(A):
        r = rel_vals(A)
        return Seq(r.len, lambda i: ops.scalar_cmp(cmp, r.fn(i), 0), dtype="bool", kind="ndarray")
    return f


for _nm, _cmp in (("_is_in_sample", "LtE"), ("_is_out_of_sample", "Gt")):
    contract(f"{FH}::ForecastingHorizon.{_nm}", "C02", cases=SELF_CASES,
             frame=lambda A: [A.self], inputs=_self_inputs(CUT), returns=_mask(_cmp),
             raises=[("ValueError", lambda A: (not A.self.attrs["_is_relative"]) and A.cutoff is None)])


def _all_in(A):
    r = rel_vals(A)
    return ForAll(lambda i: r.fn(i) <= 0, 0, r.len)


def _all_out(A):
    r = rel_vals(A)
    return ForAll(lambda i: r.fn(i) > 0, 0, r.len)


contract(f"{FH}::ForecastingHorizon.is_all_in_sample", "C02", cases=SELF_CASES, frame=lambda A: [A.self], inputs=_self_inputs(CUT),
         raises=[("ValueError", lambda A: (not A.self.attrs["_is_relative"]) and A.cutoff is None)],
         result=lambda I, A: I.ctx.fresh_bool("all_in"),
         ensures=[("iff-all-steps<=0", lambda A, r: Eq(r, _all_in(A)), {"modular": False}),
                  ("iff-last<=0", lambda A, r: Eq(r, Or(Eq(Len(vals(A.self)), 0), At(rel_vals(A), ops.simp(ops.to_z3(Len(vals(A.self))) - 1)) <= 0)))])

contract(f"{FH}::ForecastingHorizon.is_all_out_of_sample", "C02", cases=SELF_CASES, frame=lambda A: [A.self], inputs=_self_inputs(CUT),
         raises=[("ValueError", lambda A: (not A.self.attrs["_is_relative"]) and A.cutoff is None)],
         result=lambda I, A: I.ctx.fresh_bool("all_out"),
         ensures=[("iff-all-steps>0", lambda A, r: Eq(r, _all_out(A)), {"modular": False}),
                  ("iff-first>0", lambda A, r: Eq(r, Or(Eq(Len(vals(A.self)), 0), At(rel_vals(A), 0) > 0)))])


def _part_result(I, A):
    n = I.ctx.fresh_int("npart")
    f = I.ctx.fresh_fun("part", z3.IntSort(), z3.IntSort())
    v = SArr((n,), lambda i: f(ops.to_z3(i)), "int", "Int64Index")
    I.ctx.assume(n >= 0)
    return mk_fh(I, v, A.self.attrs["_is_relative"], structural=False)


def _in_sample_post(A, r):
    """result = the prefix of self whose steps are <= 0 (same representation as self)"""
    if not is_fh(r):
        return False
    v, rv, rel = vals(A.self), vals(r), rel_vals(A)
    m = rv.len
    return And(ops.to_z3(m) >= 0, ops.to_z3(m) <= ops.to_z3(v.len),
               ForAll(lambda j: And(Eq(rv.fn(j), v.fn(j)), rel.fn(j) <= 0), 0, m),
               Implies(ops.to_z3(m) < ops.to_z3(v.len), rel.fn(m) > 0),
               r.attrs["_is_relative"] is A.self.attrs["_is_relative"])


def _out_sample_post(A, r):
    """result = the suffix of self whose steps are > 0"""
    if not is_fh(r):
        return False
    v, rv, rel = vals(A.self), vals(r), rel_vals(A)
    m, n = ops.to_z3(rv.len), ops.to_z3(v.len)
    return And(m >= 0, m <= n,
               ForAll(lambda j: And(Eq(rv.fn(j), v.fn(ops.simp(n - m + j))), rel.fn(ops.simp(n - m + j)) > 0), 0, rv.len),
               Implies(m < n, rel.fn(ops.simp(n - m - 1)) <= 0),
               r.attrs["_is_relative"] is A.self.attrs["_is_relative"])


contract(f"{FH}::ForecastingHorizon.to_in_sample", "C02", cases=SELF_CASES, frame=lambda A: [A.self], inputs=_self_inputs(CUT),
         raises=[("ValueError", lambda A: (not A.self.attrs["_is_relative"]) and A.cutoff is None)],
         result=_part_result, ensures=[("prefix-with-steps<=0", _in_sample_post)])
contract(f"{FH}::ForecastingHorizon.to_out_of_sample", "C02", cases=SELF_CASES, frame=lambda A: [A.self], inputs=_self_inputs(CUT),
         raises=[("ValueError", lambda A: (not A.self.attrs["_is_relative"]) and A.cutoff is None)],
         result=_part_result, ensures=[("suffix-with-steps>0", _out_sample_post)])

def _indexer_returns(A):
    rel = rel_vals(A)
    if A.from_cutoff is True:
        return Seq(Len(vals(A.self)), lambda i: ops.simp(ops.to_z3(rel.fn(i)) - 1), kind="Int64Index")
    # from_cutoff=False: zero-based relative to the FIRST step of the horizon
    return Seq(Len(vals(A.self)), lambda i: ops.simp(ops.to_z3(rel.fn(i)) - ops.to_z3(rel.fn(0))), kind="Int64Index")


contract(f"{FH}::ForecastingHorizon.to_indexer", "C02", cases=SELF_CASES + ["rel|Int64Index|first", "abs|Int64Index|first"],
         frame=lambda A: [A.self],
         inputs=_self_inputs(lambda B, case: {"cutoff": B.int("cutoff"), "from_cutoff": not case.endswith("|first")}),
         pre=lambda A: Len(vals(A.self)) >= 1 if A.from_cutoff is not True else True,
         raises=[("ValueError", lambda A: (not A.self.attrs["_is_relative"]) and A.cutoff is None)],
         returns=_indexer_returns)


# --------------------------------------------------------------------------- level 2 ------

@lemma("C02/roundtrip-relative-absolute", "C02", uses=[f"{FH}::ForecastingHorizon.to_relative", f"{FH}::ForecastingHorizon.to_absolute"])
def _roundtrip(B):
    """to_relative(c)(to_absolute(c)(fh)) == fh  and  to_absolute(c)(to_relative(c)(g)) == g"""
    c = B.int("cutoff")
    fh = sym_fh(B, "fh", relative=True)
    a = abs_vals(NS(self=fh, cutoff=c))                       # contract of to_absolute
    back = rel_vals(NS(self=mk_fh(B.I, a, False), cutoff=c))    # contract of to_relative
    g = sym_fh(B, "g", relative=False)
    r = rel_vals(NS(self=g, cutoff=c))
    forth = abs_vals(NS(self=mk_fh(B.I, r, True), cutoff=c))
    return [("rel->abs->rel", equiv(back, vals(fh))), ("abs->rel->abs", equiv(forth, vals(g))),
            ("abs-keeps-order", strictly_increasing(a))]


@lemma("C02/partition-at-zero", "C02", uses=[f"{FH}::ForecastingHorizon.to_in_sample", f"{FH}::ForecastingHorizon.to_out_of_sample",
                                                f"{FH}::ForecastingHorizon.is_all_in_sample", f"{FH}::ForecastingHorizon.is_all_out_of_sample"])
def _partition(B):
    """in-sample ++ out-of-sample == self, split exactly at step 0; predicates agree"""
    c = B.int("cutoff")
    fh = sym_fh(B, "fh", relative=False)
    A = NS(self=fh, cutoff=c)
    ins = _part_result(B.I, A)
    B.assume(_in_sample_post(A, ins))
    oos = _part_result(B.I, A)
    B.assume(_out_sample_post(A, oos))
    n, p, q = ops.to_z3(Len(vals(fh))), ops.to_z3(Len(vals(ins))), ops.to_z3(Len(vals(oos)))
    allin = B.bool("all_in")
    B.assume(Eq(allin, _all_in(A)))
    allout = B.bool("all_out")
    B.assume(Eq(allout, _all_out(A)))
    return [("lengths-add-up", p + q == n),
            ("all-in-iff-oos-empty", allin == (q == 0)),
            ("all-out-iff-ins-empty", allout == (p == 0))]
