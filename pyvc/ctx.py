"""Path context: path condition, branch oracle (decision replay), obligations, ghost state."""
import time

import z3

from .values import to_z3


class Undecided(Exception):
    """The function left the verified subset (or a solver said unknown): never a violation."""


class PathEnd(Exception):
    """The current path ends here (infeasible, or cut after an invariant-preservation check)."""


class SymRaise(Exception):
    """A Python exception raised by the interpreted program."""

    def __init__(self, exc, where=None):
        Exception.__init__(self, repr(exc))
        self.exc = exc
        self.where = where


class Obligation:
    def __init__(self, name, kind, hyps, goal, loc=None, info=None):
        self.name = name
        self.kind = kind
        self.hyps = hyps          # list of z3 Bool
        self.goal = goal          # z3 Bool
        self.loc = loc
        self.info = info or {}
        self.status = None        # 'proved' | 'refuted' | 'unknown'
        self.backend = None
        self.seconds = 0.0
        self.model = None


SOLVER_STATS = {"feas_calls": 0, "feas_seconds": 0.0}


def _mk_solver(timeout_ms):
    s = z3.Solver()
    s.set("timeout", timeout_ms)
    return s


class Ctx:
    def __init__(self, decisions=None, feas_timeout_ms=3000):
        self.pc = []                  # list of z3 Bool
        self.decisions = list(decisions or [])
        self.dpos = 0
        self.pending = []             # alternative decision prefixes discovered on this run
        self.obligations = []
        self.counter = {}
        self.ycount = 0               # ghost: number of values yielded so far (int term)
        self.yields = []              # concrete list of yielded values (when not cut by a loop)
        self.trace = []               # ghost trace of calls on abstract objects
        self.notes = []               # assumptions / inlined helpers / dropped constructs
        self.feas_timeout_ms = feas_timeout_ms
        self.path_events = []         # human readable decisions for the path id
        self.frames = []              # call stack (FuncVal names)
        self.inputs = {}              # name -> z3 const of the symbolic inputs (for models)
        self.frozen = None            # ids of objects that must not be written (frame checks)
        self.mutated = []             # (object, what) writes to frozen objects
        self.writes = []              # every attribute write (object, name, value)
        self.in_quant = 0             # >0 while building a quantified body (no path effects)
        self.quant_guards = []        # range conditions of the comprehension variables being evaluated
        self.nyield_sites = 0

    # ---- fresh symbols -------------------------------------------------------------
    def fresh_name(self, base):
        n = self.counter.get(base, 0)
        self.counter[base] = n + 1
        return f"{base}!{n}" if n else base

    def fresh_int(self, base="i"):
        return z3.Int(self.fresh_name(base))

    def fresh_real(self, base="r"):
        return z3.Real(self.fresh_name(base))

    def fresh_bool(self, base="b"):
        return z3.Bool(self.fresh_name(base))

    def fresh_fun(self, base, *sorts):
        return z3.Function(self.fresh_name(base), *sorts)

    # ---- assumptions / obligations -------------------------------------------------
    def assume(self, f):
        f = to_z3(f)
        if z3.is_true(f):
            return
        self.pc.append(f)

    def prove(self, name, kind, goal, loc=None, info=None, assume_after=True):
        goal = to_z3(goal)
        parts = list(goal.children()) if z3.is_and(goal) and len(goal.children()) <= 12 else [goal]
        ob = None
        for k, g in enumerate(parts):
            nm = name if len(parts) == 1 else f"{name}#{k}"
            ob = Obligation(nm, kind, list(self.pc), g, loc, info)
            self.obligations.append(ob)
        if assume_after:
            self.assume(goal)
        return ob

    # ---- feasibility / branching ---------------------------------------------------
    def check_sat(self, extra=None):
        s = _mk_solver(self.feas_timeout_ms)
        for f in self.pc:
            s.add(f)
        if extra is not None:
            s.add(extra)
        t0 = time.time()
        r = s.check()
        SOLVER_STATS["feas_calls"] += 1
        SOLVER_STATS["feas_seconds"] += time.time() - t0
        return r

    def feasible(self, cond):
        r = self.check_sat(cond)
        return r != z3.unsat          # unknown counts as feasible (explores more, stays sound)

    def entails(self, cond):
        """True only if pc |= cond is established."""
        cond = to_z3(cond)
        if z3.is_true(cond):
            return True
        return self.check_sat(z3.Not(cond)) == z3.unsat

    def branch(self, cond, what=""):
        if isinstance(cond, bool):
            return cond
        cond = z3.simplify(cond)
        if z3.is_true(cond):
            return True
        if z3.is_false(cond):
            return False
        if self.dpos < len(self.decisions):
            d = self.decisions[self.dpos]
        else:
            t_ok = self.feasible(cond)
            f_ok = self.feasible(z3.Not(cond))
            if t_ok and f_ok:
                self.pending.append(self.decisions[: self.dpos] + [False])
                d = True
            elif t_ok:
                d = True
            elif f_ok:
                d = False
            else:
                raise PathEnd("infeasible")
            self.decisions.append(d)
        self.dpos += 1
        self.pc.append(cond if d else z3.Not(cond))
        if what:
            self.path_events.append(f"{what}={'T' if d else 'F'}")
        return d

    def choose(self, n, what=""):
        """n-way nondeterministic choice (used for loop cut: preservation / exit)."""
        if self.dpos < len(self.decisions):
            d = self.decisions[self.dpos]
        else:
            for alt in range(1, n):
                self.pending.append(self.decisions[: self.dpos] + [alt])
            d = 0
            self.decisions.append(d)
        self.dpos += 1
        if what:
            self.path_events.append(f"{what}={d}")
        return d

    def note(self, s):
        if s not in self.notes:
            self.notes.append(s)

    def path_id(self):
        return ",".join(self.path_events) or "-"
