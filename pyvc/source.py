"""Source table: parses the real files under /repo/sktime on demand (never imports them)."""
import ast
import hashlib
import os

from . import REPO


class Module:
    def __init__(self, name, path, tree, text):
        self.name = name          # dotted module name, e.g. sktime.forecasting.base._fh
        self.path = path          # path relative to the repo root
        self.tree = tree
        self.text = text
        self.is_pkg = path.endswith("__init__.py")
        self.globals = None       # filled lazily by the interpreter (name -> value)

    def __repr__(self):
        return f"<Module {self.name}>"


class SourceTable:
    def __init__(self, root=None):
        self.root = root or REPO
        self._mods = {}
        self.files_read = {}

    def path_of(self, modname):
        rel = modname.replace(".", "/")
        cand = [rel + ".py", rel + "/__init__.py"]
        for c in cand:
            if os.path.isfile(os.path.join(self.root, c)):
                return c
        return None

    def has(self, modname):
        return modname in self._mods or self.path_of(modname) is not None

    def module(self, modname):
        if modname in self._mods:
            return self._mods[modname]
        p = self.path_of(modname)
        if p is None:
            raise KeyError(modname)
        text = open(os.path.join(self.root, p), encoding="utf-8").read()
        tree = ast.parse(text, filename=p)
        m = Module(modname, p, tree, text)
        self._mods[modname] = m
        self.files_read[p] = hashlib.sha256(text.encode()).hexdigest()[:16]
        return m

    def module_by_path(self, relpath):
        assert relpath.endswith(".py"), relpath
        name = relpath[:-3].replace("/", ".")
        if name.endswith(".__init__"):
            name = name[: -len(".__init__")]
        return self.module(name)

    def all_module_paths(self, sub="sktime"):
        out = []
        for d, _, fs in os.walk(os.path.join(self.root, sub)):
            for f in fs:
                if f.endswith(".py"):
                    out.append(os.path.relpath(os.path.join(d, f), self.root))
        return sorted(out)


def find_def(tree_or_body, qualname):
    """Find a FunctionDef/ClassDef by dotted qualified name inside a module tree."""
    body = tree_or_body.body if hasattr(tree_or_body, "body") else tree_or_body
    parts = qualname.split(".")
    node = None
    for p in parts:
        found = None
        for n in body:
            if isinstance(n, (ast.FunctionDef, ast.ClassDef, ast.AsyncFunctionDef)) and n.name == p:
                found = n
        if found is None:
            return None
        node = found
        body = found.body
    return node


def func_hash(node):
    return hashlib.sha256(ast.dump(node).encode()).hexdigest()[:16]
