"""Command line: python3-vt -m pyvc.cli check C02 [--tier quick|thorough] | replay <file> | selfcheck"""
import argparse
import glob
import json
import multiprocessing as mp
import os
import subprocess
import sys
import time

from . import REPO, VERIF


def _jobs_for(prop, reg, lemmas):
    jobs = []
    for t, c in reg.items():
        if prop in c.prop.split(",") and not c.assumed:
            for case in c.cases:
                jobs.append(("fn", t, case))
    for n, l in lemmas.items():
        if prop in l.prop.split(","):
            jobs.append(("lemma", n, "-"))
    return jobs


def ob_key(job, ob):
    return f"{job['target']}[{job['case']}]/{ob['name']}"


def load_known():
    p = os.path.join(VERIF, "known_findings.json")
    return json.load(open(p)) if os.path.exists(p) else {"fixed": [], "known": []}


def load_baseline(prop):
    p = os.path.join(VERIF, "baseline", prop + ".json")
    if os.path.exists(p):
        return json.load(open(p))
    return None


def run_native(prop, tier, seed):
    """bounded tier + replay support run under /venv/bin/python with the compat shim"""
    drv = os.path.join(VERIF, "compat", "native_driver.py")
    if not os.path.exists(os.path.join(VERIF, "contracts", "native", prop + ".py")):
        return None
    env = dict(os.environ)
    env["PYTHONPATH"] = os.path.join(VERIF, "compat") + ":" + REPO + ":" + VERIF
    env["VERIF_SEED"] = str(seed)
    out = os.path.join(VERIF, "evidence", f".{prop}.{os.getpid()}.bounded.json")
    try:
        p = subprocess.run(["/venv/bin/python", drv, "bounded", prop, tier, out], env=env, capture_output=True, text=True,
                           timeout=3000 if tier == "thorough" else 900)
    except subprocess.TimeoutExpired:
        return {"error": "bounded tier timed out", "cases": 0, "failures": []}
    if p.returncode != 0 or not os.path.exists(out):
        return {"error": (p.stderr or p.stdout)[-2000:], "cases": 0, "failures": []}
    r = json.load(open(out))
    os.unlink(out)
    return r


def replay_native(prop, record):
    """try to reproduce a refuted obligation on the real code; -> dict(reproduced, detail)"""
    drv = os.path.join(VERIF, "compat", "native_driver.py")
    if not os.path.exists(os.path.join(VERIF, "contracts", "native", prop + ".py")):
        return {"reproduced": False, "detail": "no native replay function for this property"}
    env = dict(os.environ)
    env["PYTHONPATH"] = os.path.join(VERIF, "compat") + ":" + REPO + ":" + VERIF
    tmp = os.path.join(VERIF, "replays", f".tmp_{os.getpid()}.json")
    os.makedirs(os.path.dirname(tmp), exist_ok=True)
    json.dump(record, open(tmp, "w"))
    try:
        p = subprocess.run(["/venv/bin/python", drv, "replay", prop, tmp], env=env, capture_output=True, text=True, timeout=300)
        try:
            out = json.loads(p.stdout.strip().splitlines()[-1])
        except Exception:
            out = {"reproduced": False, "detail": "replay driver output not understood: " + (p.stdout + p.stderr)[-1500:]}
    except subprocess.TimeoutExpired:
        out = {"reproduced": False, "detail": "replay timed out"}
    finally:
        if os.path.exists(tmp):
            os.unlink(tmp)
    return out


def check(prop, tier, update_baseline=False, only=None, procs=16):
    from . import engine, spec
    t0 = time.time()
    seed = int(os.environ.get("VERIF_SEED", "0") or 0)
    reg = engine.load_contracts()
    jobs = _jobs_for(prop, reg, spec.LEMMAS)
    if only:
        jobs = [j for j in jobs if only in j[1]]
    opts = {"timeout_ms": 10000 if tier == "quick" else 30000, "second_opinion": tier == "thorough",
            "job_timeout_s": 300 if tier == "quick" else 1200}
    tasks = [(k, n, c, opts) for (k, n, c) in jobs]
    level = _claimed_level(prop)
    if not tasks:
        if level == "proof":
            print(f"no contracts registered for {prop}")
            return 3
        results = []
    else:
        ctxm = mp.get_context("fork")
        with ctxm.Pool(min(procs, len(tasks)), maxtasksperchild=1) as pool:
            results = pool.map(engine.job_entry, tasks, chunksize=1)
    known = load_known()
    known_keys = {k["obligation"]: k for k in known.get("known", []) if k["property"] == prop}
    baseline = load_baseline(prop)
    crashes = [r for r in results if r.get("crash")]
    total = proved = 0
    refuted, unknown, undecided, vac = [], [], [], []
    not_covered = []
    by_kind, by_backend = {}, {}
    solver_s = 0.0
    slow = []
    seen_keys = {}
    functions = {}
    assumptions = set()
    samples = []
    for r in results:
        if r.get("crash"):
            continue
        if r["kind"] == "function":
            f = functions.setdefault(r["target"], {"cases": 0, "paths": 0, "hash": r.get("func_hash"), "lines": r.get("lines")})
            f["cases"] += 1
            f["paths"] += r["paths"]
        ctr0 = reg.get(r["target"])
        best_effort = ctr0 is not None and ctr0.best_effort
        if best_effort and r["undecided"]:
            not_covered.append(f"{r['target']}[{r['case']}]: {r['undecided'][0][:160]}")
            continue          # nothing about this function is claimed on this run
        for u in r["undecided"]:
            undecided.append(f"{r['target']}[{r['case']}]: {u}")
        canary_ok = False
        n_real = 0
        for ob in r["obligations"]:
            if ob["kind"] == "vacuity":
                canary_ok = canary_ok or ob["status"] in ("refuted", "unknown")
                continue
            n_real += 1
            key = ob_key(r, ob)
            total += 1
            solver_s += ob["seconds"]
            by_kind[ob["kind"]] = by_kind.get(ob["kind"], 0) + 1
            slow.append((ob["seconds"], key))
            st = ob["status"]
            prev = seen_keys.get(key)
            rank = {"proved": 0, "unknown": 1, "candidate": 1, "disagree": 2, "refuted": 3}
            if prev is None or rank[st] > rank[prev]:
                seen_keys[key] = st
            if st == "proved":
                proved += 1
                by_backend[ob["backend"]] = by_backend.get(ob["backend"], 0) + 1
                if len(samples) < 6 and ob["kind"] in ("post", "lemma", "yield", "inv-pres"):
                    samples.append({"obligation": key, "path": ob["path"], "kind": ob["kind"], "status": st, "backend": ob["backend"]})
            elif st == "refuted":
                refuted.append((r, ob, key))
            else:
                unknown.append((r, ob, key))
        expect_raise = False
        ctr = reg.get(r["target"])
        if ctr is not None and ctr.expect.get(r["case"]) == "raise":
            expect_raise = True
        if r["kind"] == "function" and not r["undecided"]:
            if best_effort and r["normal_paths"] == 0 and not expect_raise:
                not_covered.append(f"{r['target']}[{r['case']}]: every path raises with the generated arguments")
            elif r["normal_paths"] == 0 and r["raise_paths"] == 0:
                vac.append(f"{r['target']}[{r['case']}]: no live path")
            if r["normal_paths"] > 0 and not canary_ok:
                vac.append(f"{r['target']}[{r['case']}]: canary postcondition was not refuted (vacuous hypotheses?)")
        if r["kind"] == "lemma" and not canary_ok and not r["undecided"]:
            vac.append(f"{r['target']}: lemma hypotheses are contradictory (canary not refuted)")
        for n in r["notes"]:
            assumptions.add(n)
        for n in r["inlined"]:
            assumptions.add("inlined (verified as part of its caller, no separate contract): " + n)
        for n in r["lib_used"]:
            assumptions.add("library model: " + n)
        for n in r["used_contracts"]:
            assumptions.add("callee used through its contract: " + n)
    # ---- baseline: every obligation proved on the unchanged tree must still exist and be proved
    missing = []
    if baseline and not only and not update_baseline:
        for key in baseline["proved"]:
            if key not in seen_keys:
                missing.append(key)
    if update_baseline and not only:
        os.makedirs(os.path.join(VERIF, "baseline"), exist_ok=True)
        json.dump({"property": prop, "proved": sorted(k for k, s in seen_keys.items() if s == "proved")},
                  open(os.path.join(VERIF, "baseline", prop + ".json"), "w"), indent=0)
    # ---- bounded tier (never counted as proved)
    bounded = run_native(prop, tier, seed) if not only else None
    # ---- violations
    os.makedirs(os.path.join(VERIF, "replays", prop), exist_ok=True)
    lines = []
    n_viol = 0
    known_hit = []
    reported = set()
    replay_cache = {}
    # candidates (unknown + a model of the finitely instantiated query): only the native replay decides
    still_unknown = []
    n_cand = 0
    for (r, ob, key) in unknown:
        if ob["status"] != "candidate" or key in reported or n_cand >= 6:
            still_unknown.append((r, ob, key))
            continue
        n_cand += 1
        rec = {"property": prop, "obligation": key, "path": ob["path"], "kind": ob["kind"], "solver": ob["backend"],
               "verdict": "undecided by the solvers; candidate input from bounded quantifier instantiation",
               "model": ob["model"], "goal": ob["goal"], "info": ob["info"], "target": r["target"], "case": r["case"],
               "repo_head": _repo_head()}
        rp = replay_native(prop, rec)
        if rp.get("reproduced"):
            rec["replay"] = rp
            if key in known_keys:
                known_hit.append(key)
                lines.append(f"KNOWN-FINDING: property={prop} {known_keys[key]['what']}")
            else:
                fn = os.path.join(VERIF, "replays", prop, _safe(key) + ".json")
                json.dump(rec, open(fn, "w"), indent=1, default=str)
                n_viol += 1
                lines.append(f"VIOLATION property={prop} replay={fn}")
            reported.add(key)
        else:
            still_unknown.append((r, ob, key))
    unknown = still_unknown
    for (r, ob, key) in refuted:
        if key in known_keys:
            if key not in reported:
                known_hit.append(key)
                lines.append(f"KNOWN-FINDING: property={prop} {known_keys[key]['what']}")
                reported.add(key)
            continue
        if key in reported:
            continue
        reported.add(key)
        rec = {"property": prop, "obligation": key, "path": ob["path"], "kind": ob["kind"], "solver": ob["backend"],
               "verdict": "refuted (sat: hypotheses of the path and the negated clause are satisfiable)",
               "model": ob["model"], "goal": ob["goal"], "info": ob["info"], "target": r["target"], "case": r["case"],
               "repo_head": _repo_head()}
        # one native replay per function under contract (the others share its verdict); at most 8 per run
        tkey = r["target"]
        if tkey in replay_cache:
            rp = dict(replay_cache[tkey], note="replay shared with another failed obligation of the same function")
        elif len(replay_cache) >= 8:
            rp = {"reproduced": False, "detail": "replay budget of this run exhausted (8 replays)"}
        else:
            rp = replay_native(prop, rec)
            replay_cache[tkey] = rp
        rec["replay"] = rp
        fn = os.path.join(VERIF, "replays", prop, _safe(key) + ".json")
        json.dump(rec, open(fn, "w"), indent=1, default=str)
        n_viol += 1
        tail = "" if rp.get("reproduced") else " no-failing-input-found"
        lines.append(f"VIOLATION property={prop} replay={fn}{tail}")
    if bounded:
        for f in bounded.get("failures", []):
            kkey = f.get("key", "bounded")
            if kkey in known_keys:
                if kkey not in reported:
                    reported.add(kkey)
                    known_hit.append(kkey)
                    lines.append(f"KNOWN-FINDING: property={prop} {known_keys[kkey]['what']}")
                continue
            if kkey in reported:
                continue
            reported.add(kkey)
            fn = os.path.join(VERIF, "replays", prop, _safe("bounded_" + kkey) + ".json")
            json.dump({"property": prop, "obligation": kkey, "bounded": True, "failing_input": f, "repo_head": _repo_head()},
                      open(fn, "w"), indent=1, default=str)
            n_viol += 1
            lines.append(f"VIOLATION property={prop} replay={fn}")
    # known findings that must still be reproduced (they are findings, not suppressions of everything)
    for key, k in known_keys.items():
        if key not in reported and k.get("kind") == "obligation":
            lines.append(f"note: known finding {key} did not occur on this run (fixed?)")
    status = 0
    if n_viol:
        status = 1
    elif crashes or any(ob["status"] == "disagree" for (_, ob, _) in unknown):
        status = 3
    elif unknown or undecided or vac or missing or (bounded and bounded.get("error")):
        status = 2
    wall = time.time() - t0
    slow.sort(reverse=True)
    ev = {
        "property_id": prop, "tier": tier, "seed": seed, "level": level,
        "coverage": {
            # obligations that fail ONLY inside a listed known finding are reported separately (they are neither
            # claimed nor counted); every other obligation must be discharged for exit 0
            "obligations": total - len(set(known_hit) & {k_ for (_, _, k_) in refuted}), "discharged": proved,
            "obligations_including_known_findings": total,
            "checker_cmd": f"python3-vt -m pyvc.cli check {prop} --tier {tier}",
            "trusted_base": ["pyvc (AST interpreter + VC generator, /verif/pyvc)", "z3 4.x/5.1 (python API)", "cvc5 1.0.3 (CLI)",
                             "library models in pyvc/libmodels.py, libnp.py, libpd.py (numpy<1.20 / pandas 1.x semantics)",
                             "machine integers / floats treated as mathematical integers / reals"],
            "functions_under_contract": functions,
            "jobs": len(tasks), "obligations_by_kind": by_kind, "discharged_by_backend": by_backend,
            "solver_seconds_total": round(solver_s, 2), "slowest": [{"s": s, "obligation": k} for s, k in slow[:5]],
            "refuted": [k for (_, _, k) in refuted], "unknown": [k for (_, _, k) in unknown][:50],
            "undecided": undecided[:50], "vacuity_failures": vac,
            "best_effort_not_covered": {"count": len(not_covered), "items": not_covered[:200]}, "baseline_missing": missing[:50],
            "known_findings_matched": known_hit,
            "bounded": bounded if bounded is not None else {"note": "no bounded tier for this property"},
            "samples": samples,
            "explanation": ("every clause of every sidecar contract is turned into named obligations on each path of the real "
                            "function's AST (re-read from /repo on this run) and discharged by z3/cvc5; bounded items are "
                            "reported separately and never counted in `discharged`") if level == "proof" else
                           ("the decisive part of this property is NOT proved: it is checked by the bounded native tier (real code under "
                            "/venv + compat shim, exhaustive small-scope enumeration with the bound stated in coverage.bounded.bound, "
                            f"{(bounded or {}).get('cases', 0)} cases on this run); the {total} contract obligations listed here cover only the "
                            "parts named in MANIFEST level_claimed.text"),
            "evaluations": int((bounded or {}).get("cases", 0)) + total,
            "distinct_nontrivial": max(2, len((bounded or {}).get("per_clause", {})) + len(seen_keys)),
            "rule": "bounded tier: cases = individual clause evaluations on enumerated inputs, distinct = number of distinct clause keys; "
                    "proof tier: one obligation per contract clause and path",
        },
        "assumptions": sorted(assumptions) + GLOBAL_ASSUMPTIONS,
        "wall_s": round(wall, 2), "violations": n_viol,
    }
    os.makedirs(os.path.join(VERIF, "evidence"), exist_ok=True)
    # evidence describes /repo; a run against another tree (selftest/try_patch.sh sets PYVC_REPO) must not overwrite it
    ev_name = (prop + ".json") if os.path.realpath(REPO) == "/repo" else (".scratch." + prop + ".json")
    ev["repo"] = os.path.realpath(REPO)
    json.dump(ev, open(os.path.join(VERIF, "evidence", ev_name), "w"), indent=1, default=str)
    for l in lines:
        print(l)
    for c in crashes:
        print("CHECKER CRASH in", c["target"], c["case"])
        print(c["crash"])
    for (r, ob, key) in unknown[:20]:
        print(f"UNDECIDED {key} [{ob['path']}] {ob['backend']} {ob.get('reason', '')}")
    for u in undecided[:20]:
        print("UNDECIDED", u)
    for v in vac:
        print("VACUITY", v)
    for m in missing[:20]:
        print("MISSING obligation that was proved on the baseline tree:", m)
    if bounded and bounded.get("error"):
        print("BOUNDED-TIER ERROR", bounded["error"])
    if not_covered:
        print(f"best-effort jobs not covered on this run: {len(not_covered)} (listed in the evidence file)")
    print(f"{prop}: {proved}/{total} obligations discharged, {len(functions)} functions under contract, {len(tasks)} jobs, "
          f"bounded cases {bounded.get('cases') if bounded else 0}, {wall:.1f}s, exit {status}")
    return status


def _claimed_level(prop):
    try:
        m = json.load(open(os.path.join(VERIF, "MANIFEST.json")))
        for c in m.get("checks", []):
            if c["property_id"] == prop:
                return c["level_claimed"]["category"]
    except Exception:
        pass
    return "proof"


GLOBAL_ASSUMPTIONS = [
    "global: numpy int64 / float64 arithmetic treated as mathematical integers / reals; NaN only as a predicate",
    "global: wrapped estimators are deterministic functions of their arguments and fitted state",
    "global: termination is not proved",
    "global: exceptions raised lazily inside generators are attributed to the call",
    "replay only: compat shim /verif/compat/sktime_compat.py (pandas 2 / numpy 2 / sklearn 1.7 compatibility)",
]


def _safe(s):
    return "".join(ch if ch.isalnum() or ch in "._-" else "_" for ch in s)[:150]


def _repo_head():
    try:
        return subprocess.run(["git", "-C", REPO, "rev-parse", "HEAD"], capture_output=True, text=True).stdout.strip()
    except Exception:
        return "?"


def main(argv=None):
    ap = argparse.ArgumentParser()
    sub = ap.add_subparsers(dest="cmd")
    c = sub.add_parser("check")
    c.add_argument("prop")
    c.add_argument("--tier", default=os.environ.get("VERIF_TIER", "quick"))
    c.add_argument("--update-baseline", action="store_true")
    c.add_argument("--only")
    c.add_argument("--procs", type=int, default=16)
    r = sub.add_parser("replay")
    r.add_argument("path")
    sub.add_parser("selfcheck")
    a = ap.parse_args(argv)
    if a.cmd == "check":
        sys.exit(check(a.prop, a.tier, a.update_baseline, a.only, a.procs))
    if a.cmd == "replay":
        rec = json.load(open(a.path))
        if rec.get("bounded"):
            print(json.dumps(rec["failing_input"], indent=1))
            sys.exit(1)
        out = replay_native(rec["property"], rec)
        print(json.dumps(out, indent=1))
        sys.exit(1 if out.get("reproduced") else 0)
    if a.cmd == "selfcheck":
        import z3
        print("z3", z3.get_version_string())
        p = subprocess.run(["/venv/bin/python", "-c", "import sktime_compat, sktime.forecasting.base; print('shim ok')"],
                           env=dict(os.environ, PYTHONPATH=os.path.join(VERIF, "compat") + ":" + REPO), capture_output=True, text=True)
        print(p.stdout.strip() or p.stderr[-500:])
        sys.exit(0 if p.returncode == 0 else 3)
    ap.print_help()


if __name__ == "__main__":
    main()
