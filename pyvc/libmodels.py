"""Library models: the Python builtins, numpy, pandas, scikit-learn primitives that the
functions under contract use.  Every model is a small, explicit specification of the library
call (semantics of the versions sktime 0.6.0 was written for: numpy<1.20, pandas 1.x,
scikit-learn 0.24).  They are the trusted base of the proofs and are listed in the evidence
under `assumptions` whenever used."""
import ast
from fractions import Fraction

import z3

from . import ops
from .ctx import PathEnd, SymRaise, Undecided
from .ops import And, Eq, If, Implies, Max, Min, Not, Or, exc, simp
from .values import (NAN, AbstractObj, BoundMethod, ClassVal, ExcVal, ExtClass, FuncVal, GenVal,
                     LibMethod, LibRef, Opaque, SArr, SDict, SFrame, SList, SObj, SSeries,
                     SSlice, SStr, is_boollike, is_intlike, is_numlike, is_reallike, is_sym,
                     is_symbool, is_symint, is_symreal, to_int_term, to_z3)

LIB = {}        # path -> fn(I, args, kwargs)
METHODS = {}    # (valuekind, name) -> fn(I, recv, args, kwargs)
USED = set()    # names of the models used in this process (for the evidence files)

ALIASES = {
    "numpy.int": "builtins.int", "numpy.float": "builtins.float", "numpy.bool": "builtins.bool",
    "numpy.int64": "numpy.integer", "numpy.int_": "numpy.integer",
    "numpy.float64": "builtins.float", "numpy.bool_": "builtins.bool",
    "sklearn.model_selection.train_test_split": "sklearn.model_selection.train_test_split",
}

INDEX_KINDS = ("Index", "Int64Index", "RangeIndex", "PeriodIndex", "DatetimeIndex", "Float64Index")
KIND_PATH = {"ndarray": "numpy.ndarray", "Int64Index": "pandas.Int64Index", "RangeIndex": "pandas.RangeIndex",
             "Index": "pandas.Index", "PeriodIndex": "pandas.PeriodIndex", "DatetimeIndex": "pandas.DatetimeIndex",
             "Float64Index": "pandas.Float64Index",
             "list": "builtins.list", "tuple": "builtins.tuple", "range": "builtins.range", "set": "builtins.set"}


def lib(*paths):
    def deco(f):
        for p in paths:
            LIB[p] = f
        return f
    return deco


def method(kind, *names):
    def deco(f):
        for n in names:
            METHODS[(kind, n)] = f
        return f
    return deco


def arg(args, kwargs, i, name, default=None):
    if i is not None and i < len(args):
        return args[i]
    return kwargs.get(name, default)


def norm_path(p):
    p = ALIASES.get(p, p)
    for pre, rep in (("np.", "numpy."), ("pd.", "pandas.")):
        if p.startswith(pre):
            p = rep + p[len(pre):]
    return p


# =========================================================================== dispatch ====

def call(I, path, args, kwargs):
    path = norm_path(path)
    f = LIB.get(path)
    if f is None:
        raise Undecided(f"no library model for {path}")
    USED.add(path)
    return f(I, list(args), dict(kwargs))


def kind_of(v):
    if isinstance(v, SArr):
        return "arr"
    if isinstance(v, SList):
        return "list"
    if isinstance(v, SDict):
        return "dict"
    if isinstance(v, SSeries):
        return "series"
    if isinstance(v, SFrame):
        return "frame"
    if isinstance(v, str):
        return "str"
    if isinstance(v, SStr):
        return "sstr"
    if isinstance(v, GenVal):
        return "gen"
    if isinstance(v, ExcVal):
        return "exc"
    if is_numlike(v):
        return "num"
    if isinstance(v, Opaque):
        return "opaque"
    if isinstance(v, Indexer):
        return "indexer"
    return type(v).__name__


def call_method(I, recv, name, args, kwargs):
    if isinstance(recv, AbstractObj):
        return call_abstract(I, recv, name, args, kwargs)
    k = kind_of(recv)
    f = METHODS.get((k, name))
    if f is None:
        raise Undecided(f"no model for method .{name} of {k} ({recv!r})")
    USED.add(f"{k}.{name}")
    return f(I, recv, list(args), dict(kwargs))


def value_attr(I, v, name):
    k = kind_of(v)
    if isinstance(v, SArr):
        if v.kind == "ndarray" and name in ("index", "iloc", "loc", "columns"):
            raise SymRaise(ExcVal(ExtClass("builtins.AttributeError"), (name,)))       # numpy arrays have no pandas accessors
        if name == "shape":
            return SList(list(v.shape), "tuple")
        if name == "ndim":
            return v.ndim
        if name == "itemsize":
            from .libnp import _itemsize
            return _itemsize(I)
        if name == "size":
            out = 1
            for s in v.shape:
                out = ops.scalar_arith(I.ctx, "Mult", out, s)
            return out
        if name == "dtype":
            return LibRef({"int": "numpy.int64", "real": "numpy.float64", "bool": "numpy.bool_", "obj": "numpy.object_"}[v.dtype])
        if name == "values":
            return v.with_kind("ndarray")
        if name == "T":
            if v.ndim == 1:
                return v
            if v.ndim == 2:
                return SArr((v.shape[1], v.shape[0]), lambda i, j: v.fn(j, i), v.dtype, v.kind)
        if name in ("is_monotonic", "is_monotonic_increasing") and v.kind in INDEX_KINDS:
            n = v.len
            b = I.ctx.fresh_bool("is_monotonic")
            from .spec import ForAll
            from .spec import ForAll2
            I.ctx.assume(b == to_z3(ForAll2(lambda i, j: ops.scalar_cmp("LtE", v.fn(i), v.fn(j)), 0, n)))
            return b
        if name == "freqstr" and v.kind in INDEX_KINDS:
            return None
    if isinstance(v, SSeries):
        if name == "index":
            return v.index
        if name == "values":
            return v.values.with_kind("ndarray")
        if name in ("iloc", "loc"):
            return Indexer(v, name)
        if name == "shape":
            return SList([v.index.len], "tuple")
        if name == "name":
            return v.name
        if name == "ndim":
            return 1
    if isinstance(v, SFrame):
        if name == "index":
            return v.index
        if name in ("iloc", "loc"):
            return Indexer(v, name)
        if name == "shape":
            return SList([v.index.len, v.values.shape[1]], "tuple")
        if name == "ndim":
            return 2
        if name == "T":
            a = v.values
            return SArr((a.shape[1], a.shape[0]), lambda i, j: a.fn(j, i), a.dtype, "ndarray")
        if name == "values":
            return v.values.with_kind("ndarray")
        if name == "columns":
            if v.columns is None:
                raise Undecided("frame columns")
            return v.columns
    if v.__class__.__name__ == "SRowsTable":
        if name == "loc":
            from .libpd import _Loc
            return _Loc(v)
        raise Undecided(f"attribute .{name} of rows table")
    if v.__class__.__name__ == "SRow":
        if (k, name) in METHODS:
            return LibMethod(v, name)
        raise Undecided(f"attribute .{name} of row")
    if v.__class__.__name__ == "STable":
        if (k, name) in METHODS:
            return LibMethod(v, name)
        if name == "shape":
            return SList([v.nrows, Opaque("ncols")], "tuple")
        raise Undecided(f"attribute .{name} of result table")
    if isinstance(v, ExcVal):
        if name == "args":
            return SList(list(v.args), "tuple")
    if isinstance(v, Opaque) and name in getattr(v, "opaque_methods", {}):
        m_ = v.opaque_methods[name]
        f_ = lambda I2, a, kw: m_(I2, v, a, kw)
        f_._pyvc_native = True
        return f_
    if isinstance(v, Opaque):
        h = getattr(v, "attrs", None)
        if h and name in h:
            return h[name]
        if getattr(v, "absent_attrs", None) and name in v.absent_attrs:
            raise SymRaise(ExcVal(ExtClass("builtins.AttributeError"), (name,)))
        raise Undecided(f"attribute .{name} of opaque value {v.tag}")
    if (k, name) in METHODS:
        return LibMethod(v, name)
    if v is None or is_numlike(v) or isinstance(v, (str, SList, SDict)):
        raise SymRaise(ExcVal(ExtClass("builtins.AttributeError"), (name,)), where=f"{v!r}.{name}")
    raise Undecided(f"attribute .{name} of {k} ({v!r})")


class Indexer:
    def __init__(self, base, which):
        self.base = base
        self.which = which


def ext_class_member(I, cls, name):
    """members inherited from classes outside the repo (sklearn BaseEstimator, object ...)"""
    p = cls.path
    if name == "__init__":
        if p in ("builtins.object",) or p.startswith("sklearn.") or p.startswith("builtins."):
            return LibMethod(None, "object.__init__")
    if p.startswith("sklearn.base.") or p == "sklearn.base.BaseEstimator":
        if name in ("get_params", "set_params", "_get_param_names"):
            return LibMethod(None, "BaseEstimator." + name)
    return None


@method("NoneType", "object.__init__")
def _object_init(I, recv, args, kwargs):
    return None


def call_abstract(I, obj, name, args, kwargs):
    """call on an abstract object: user supplied model or recorded in the ghost trace"""
    m = obj.methods.get(name)
    if m is not None:
        return m(I, obj, args, kwargs)
    h = I.abstract_hook
    if h is not None:
        return h(I, obj, name, args, kwargs)
    raise Undecided(f"call .{name} on abstract object {obj.tag} without model")


def abstract_attr(I, obj, name):
    if name in obj.methods or I.abstract_hook is not None:
        if name in getattr(obj, "absent", ()):
            raise SymRaise(ExcVal(ExtClass("builtins.AttributeError"), (name,)))
        return LibMethod(obj, name)
    raise Undecided(f"attribute .{name} of abstract object {obj.tag}")


# =========================================================================== isinstance ==

def type_of(I, v):
    if isinstance(v, SObj):
        return v.cls
    if isinstance(v, bool) or is_symbool(v):
        return ExtClass("builtins.bool")
    if is_intlike(v):
        return ExtClass("builtins.int")
    if is_reallike(v):
        return ExtClass("builtins.float")
    if isinstance(v, (str, SStr)):
        return ExtClass("builtins.str")
    if v is None:
        return ExtClass("builtins.NoneType")
    if isinstance(v, SArr):
        return ExtClass(KIND_PATH[v.kind])
    if isinstance(v, SList):
        return ExtClass(KIND_PATH[v.kind])
    if isinstance(v, SDict):
        return ExtClass("builtins.dict")
    if isinstance(v, SSeries):
        return ExtClass("pandas.Series")
    if isinstance(v, SFrame):
        return ExtClass("pandas.DataFrame")
    if isinstance(v, Opaque) and getattr(v, "typath", None):
        return ExtClass(v.typath)
    if isinstance(v, ExcVal):
        return v.cls
    raise Undecided(f"type() of {v!r}")


PATH_EQUIV = {
    "pandas.core.indexes.numeric.Int64Index": "pandas.Int64Index",
    "pandas.core.indexes.range.RangeIndex": "pandas.RangeIndex",
}
SUPER = {   # subclass path -> direct superclasses (pandas 1.x / numpy hierarchy)
    "pandas.RangeIndex": ["pandas.Int64Index"], "pandas.Int64Index": ["pandas.Index"],
    "pandas.PeriodIndex": ["pandas.Index"], "pandas.DatetimeIndex": ["pandas.Index"],
    "pandas.Float64Index": ["pandas.Index"],
    "builtins.bool": ["builtins.int", "numpy.bool_"], "builtins.int": ["numbers.Integral", "numbers.Real", "numbers.Number"],
    "numpy.integer": ["numbers.Integral", "numbers.Real", "numbers.Number"],
    "builtins.float": ["numbers.Real", "numbers.Number", "numpy.floating"],
}


def path_isa(p, target):
    p = PATH_EQUIV.get(norm_path(p), norm_path(p))
    target = PATH_EQUIV.get(norm_path(target), norm_path(target))
    if target == "builtins.object":
        return True
    seen = set()
    st = [p]
    while st:
        q = st.pop()
        if q == target:
            return True
        if q in seen:
            continue
        seen.add(q)
        st.extend(SUPER.get(q, []))
    return False


def isinstance_one(I, v, cls):
    if isinstance(cls, LibRef):
        cls = ExtClass(cls.path)
    if isinstance(cls, ClassVal):
        if isinstance(v, SObj):
            return I.is_subclass(v.cls, cls)
        if isinstance(v, AbstractObj):
            if cls.name in v.isa:
                return True
            if cls.name in getattr(v, "isnot", ()):
                return False
            if getattr(v, "closed_isa", False):
                return False
            raise Undecided(f"isinstance({v.tag}, {cls.name}) not fixed by the abstract object")
        if isinstance(v, ExcVal):
            return cls.name in _exc_names(I, v)
        return False
    if isinstance(cls, ExtClass):
        t = norm_path(cls.path)
        if t == "builtins.object":
            return True
        if isinstance(v, SObj):
            return any(isinstance(c, ExtClass) and norm_path(c.path) == t for c in I.mro(v.cls))
        if isinstance(v, AbstractObj):
            return cls.name in v.isa
        if isinstance(v, ExcVal):
            return cls.name in _exc_names(I, v)
        if t == "numpy.integer":
            return is_intlike(v)          # numpy and Python ints are not distinguished
        if t == "builtins.int":
            return is_intlike(v) or is_boollike(v)
        if t in ("numbers.Integral",):
            return is_intlike(v) or is_boollike(v)
        if t in ("numbers.Real", "numbers.Number"):
            return is_numlike(v)
        if t in ("builtins.bool", "numpy.bool_"):
            return is_boollike(v)
        if t in ("builtins.float", "numpy.floating"):
            return is_reallike(v) or v is NAN
        if t == "builtins.str":
            return isinstance(v, (str, SStr))
        if t == "builtins.type":
            return isinstance(v, (ClassVal, ExtClass))
        if t == "builtins.slice":
            return isinstance(v, SSlice)
        try:
            tv = type_of(I, v)
        except Undecided:
            if isinstance(v, (FuncVal, BoundMethod, LibRef, LibMethod)):
                return False
            raise
        if isinstance(tv, ClassVal):
            return False
        return path_isa(tv.path, t)
    raise Undecided(f"isinstance against {cls!r}")


def _exc_names(I, v):
    from .interp import exc_class_names
    return exc_class_names(v.cls)


@lib("builtins.isinstance")
def _isinstance(I, args, kwargs):
    v, c = args
    cs = c.items if isinstance(c, SList) else [c]
    return any(isinstance_one(I, v, x) for x in cs)


@lib("builtins.issubclass")
def _issubclass(I, args, kwargs):
    a, c = args
    cs = c.items if isinstance(c, SList) else [c]
    a = I.as_class(a)
    for x in cs:
        x = I.as_class(x)
        if isinstance(a, ClassVal):
            if I.is_subclass(a, x):
                return True
        elif isinstance(x, ExtClass) and path_isa(a.path, x.path):
            return True
    return False


@lib("builtins.type")
def _type(I, args, kwargs):
    if len(args) != 1:
        raise Undecided("type() with 3 args")
    return type_of(I, args[0])


@lib("builtins.callable")
def _callable(I, args, kwargs):
    v = args[0]
    if isinstance(v, (FuncVal, BoundMethod, ClassVal, LibRef, LibMethod, ExtClass)):
        return True
    if isinstance(v, SObj):
        c, m = I.class_lookup(v.cls, "__call__")
        return c is not None
    if isinstance(v, AbstractObj):
        return getattr(v, "callable", True)
    if isinstance(v, Opaque):
        r = getattr(v, "callable", None)
        if r is None:
            raise Undecided("callable() of opaque")
        return r
    return False


# =========================================================================== builtins ====

@lib("builtins.len")
def _len(I, args, kwargs):
    v = args[0]
    if isinstance(v, Opaque) and getattr(v, "length", None) is not None:
        return v.length
    if isinstance(v, SList):
        return len(v.items)
    if isinstance(v, SDict):
        return len(v.items)
    if isinstance(v, str):
        return len(v)
    if isinstance(v, SArr):
        if v.ndim == 0:
            raise exc("TypeError")
        return v.len
    if isinstance(v, (SSeries, SFrame)):
        return v.index.len
    if isinstance(v, GenVal):
        raise exc("TypeError")
    if isinstance(v, SObj):
        c, m = I.class_lookup(v.cls, "__len__")
        if c is None:
            raise exc("TypeError")
        return I.call(I.bind(m, v, None), [], {})
    if isinstance(v, AbstractObj):
        return call_abstract(I, v, "__len__", [], {})
    if v is None or is_numlike(v):
        raise exc("TypeError")
    raise Undecided(f"len of {v!r}")


@lib("builtins.range")
def _range(I, args, kwargs):
    if len(args) == 1:
        start, stop, step = 0, args[0], 1
    elif len(args) == 2:
        start, stop, step = args[0], args[1], 1
    else:
        start, stop, step = args
    return make_range(I, start, stop, step, "range")


def make_range(I, start, stop, step, kind):
    """range / np.arange with integer arguments (closed form start + i*step)"""
    for x in (start, stop, step):
        if not is_intlike(x):
            if is_boollike(x):
                continue
            raise Undecided("non-integer range")
    start, stop, step = to_int_term(start), to_int_term(stop), to_int_term(step)
    ctx = I.ctx
    if not is_sym(start) and not is_sym(stop) and not is_sym(step):
        r = list(range(start, stop, step))
        a = ops.arr_from_items(r, kind=kind, dtype="int")
        a.closed = (start, step)
        return a
    if not is_sym(step):
        if step == 0:
            raise exc("ValueError")
        if step == 1:
            n = simp(z3.If(to_z3(stop) - to_z3(start) > 0, to_z3(stop) - to_z3(start), 0))
            return SArr((n,), lambda i: simp(to_z3(start) + i) if True else None, "int", kind, closed=(start, 1))
        if step < 0:
            raise Undecided("negative range step")
    else:
        if ctx.branch(step == 0, "rangestep0"):
            raise exc("ValueError")
        if not ctx.entails(step > 0):
            raise Undecided("range step of unknown sign")
    n = range_len(I, start, stop, step)
    s3 = to_z3(step)
    return SArr((n,), lambda i: simp(to_z3(start) + to_z3(i) * s3), "int", kind, closed=(start, step))


def range_len(I, start, stop, step):
    """len(range(start, stop, step)) for step >= 1: n = ceil((stop-start)/step) if stop > start else 0,
    characterised by (n-1)*step < stop-start <= n*step.  Memoised per path on the three terms so that code
    and specification talk about the same length."""
    ctx = I.ctx
    if not is_sym(step) and step == 1:
        return simp(z3.If(to_z3(stop) - to_z3(start) > 0, to_z3(stop) - to_z3(start), 0))
    key = ("rlen", str(simp(to_z3(start))), str(simp(to_z3(stop))), str(simp(to_z3(step))))
    memo = ctx.__dict__.setdefault("memo", {})
    if key in memo:
        return memo[key]
    n = ctx.fresh_int("rlen")
    d = simp(to_z3(stop) - to_z3(start))
    s3 = to_z3(step)
    ctx.assume(z3.If(d > 0, z3.And(n >= 1, (n - 1) * s3 < d, d <= n * s3), n == 0))
    memo[key] = n
    return n


@lib("builtins.int")
def _int(I, args, kwargs):
    if not args:
        return 0
    v = args[0]
    if isinstance(v, bool):
        return int(v)
    if is_symbool(v):
        return z3.If(v, 1, 0)
    if is_intlike(v):
        return v
    if isinstance(v, (Fraction, float)):
        import math
        return math.trunc(v)
    if is_symreal(v):
        # truncation towards zero
        f = ops.floor_real(I.ctx, v)
        c = ops.ceil_real(I.ctx, v)
        return simp(z3.If(v >= 0, f, c))
    if isinstance(v, str):
        try:
            return int(v)
        except ValueError:
            raise exc("ValueError")
    raise Undecided(f"int({v!r})")


@lib("builtins.float")
def _float(I, args, kwargs):
    v = args[0]
    if is_numlike(v):
        return ops.as_real(to_int_term(v))
    if isinstance(v, str):
        if v == "nan":
            return NAN
        return Fraction(v)
    raise Undecided(f"float({v!r})")


@lib("builtins.bool")
def _bool(I, args, kwargs):
    if not args:
        return False
    return I.as_bool(args[0])


@lib("builtins.str")
def _str(I, args, kwargs):
    v = args[0] if args else ""
    if isinstance(v, str):
        return v
    if isinstance(v, bool):
        return str(v)
    if isinstance(v, int):
        return str(v)
    if isinstance(v, ExcVal) and len(v.args) == 1 and isinstance(v.args[0], str):
        return v.args[0]                     # str(exception) is its single message argument
    return SStr([("v", v)])


@lib("builtins.repr")
def _repr(I, args, kwargs):
    return _str(I, args, kwargs)


@lib("builtins.abs")
def _abs(I, args, kwargs):
    v = args[0]
    if is_numlike(v):
        return ops.Abs(to_int_term(v))
    if isinstance(v, SArr):
        return ops.map_arr(v, lambda x: ops.Abs(x))
    if isinstance(v, SSeries):
        return SSeries(v.index, ops.map_arr(v.values, lambda x: ops.Abs(x)), v.name)
    raise Undecided(f"abs of {v!r}")


def _minmax(I, args, kwargs, which):
    if len(args) == 1:
        v = args[0]
        if isinstance(v, SList):
            items = v.items
        elif isinstance(v, SArr):
            return arr_minmax(I, v, which)
        else:
            items = I.iter_concrete(v)
    else:
        items = args
    if not items:
        raise exc("ValueError")
    out = items[0]
    for x in items[1:]:
        out = (Max if which == "max" else Min)(to_int_term(out), to_int_term(x))
    return out


@lib("builtins.max")
def _max(I, args, kwargs):
    return _minmax(I, args, kwargs, "max")


@lib("builtins.min")
def _min(I, args, kwargs):
    return _minmax(I, args, kwargs, "min")


def arr_minmax(I, a, which):
    """max/min of a 1-d int/real array: an element bounding all others (len>0 required)"""
    ctx = I.ctx
    if a.ndim != 1:
        raise Undecided("max of nd array")
    n = a.len
    if not is_sym(n):
        if n == 0:
            raise exc("ValueError")
        out = a.fn(0)
        for j in range(1, n):
            out = (Max if which == "max" else Min)(out, a.fn(j))
        return out
    if ctx.branch(n == 0, "emptymax"):
        raise exc("ValueError")
    m = ctx.fresh_int(which) if a.dtype in ("int", "bool") else ctx.fresh_real(which)
    w = ctx.fresh_int("arg" + which)
    ctx.assume(z3.And(w >= 0, w < n, to_z3(a.fn(w)) == m))
    from .spec import ForAll
    if which == "max":
        ctx.assume(ForAll(lambda i: to_z3(a.fn(i)) <= m, 0, n))
    else:
        ctx.assume(ForAll(lambda i: to_z3(a.fn(i)) >= m, 0, n))
    return m


@lib("builtins.sum")
def _sum(I, args, kwargs):
    v = args[0]
    if isinstance(v, SList) or (isinstance(v, SArr) and not is_sym(v.len)):
        out = 0
        for x in I.iter_concrete(v):
            out = I.binop("Add", out, x)
        return out
    if isinstance(v, SSeries):
        v = v.values
    if isinstance(v, SArr) and v.ndim == 1:
        return arr_sum(I, v)
    raise Undecided(f"sum of {v!r}")


def arr_sum(I, v):
    ctx = I.ctx
    n = v.len
    from .spec import ForAll
    if v.dtype == "bool":
        # count of True entries: 0 <= s <= n, s == n iff all true, s == 0 iff none true
        s = ctx.fresh_int("count")
        ctx.assume(z3.And(s >= 0, s <= n))
        ctx.assume((s == n) == to_z3(ForAll(lambda i: v.fn(i), 0, n)))
        ctx.assume((s == 0) == to_z3(ForAll(lambda i: Not(v.fn(i)), 0, n)))
        USED.add("sum(bool sequence) = number of True entries (axioms: bounds, ==len iff all, ==0 iff none)")
        return s
    raise Undecided("sum over symbolic numeric sequence")


@lib("builtins.all")
def _all(I, args, kwargs):
    v = args[0]
    if isinstance(v, SArr) and is_sym(v.len):
        from .spec import ForAll
        return ForAll(lambda i: I.as_bool(v.fn(i)), 0, v.len)
    out = True
    for x in I.iter_concrete(v):
        out = And(out, I.as_bool(x))
    return out


@lib("builtins.any")
def _any(I, args, kwargs):
    v = args[0]
    if isinstance(v, SArr) and is_sym(v.len):
        from .spec import ForAll
        return Not(ForAll(lambda i: Not(I.as_bool(v.fn(i))), 0, v.len))
    out = False
    for x in I.iter_concrete(v):
        out = Or(out, I.as_bool(x))
    return out


@lib("builtins.enumerate")
def _enumerate(I, args, kwargs):
    it = args[0]
    start = arg(args, kwargs, 1, "start", 0)
    sym = I.symbolic_iterable(it)
    if sym is not None:
        cnt, item = sym
        return GenVal(cnt, lambda k: SList([simp(to_z3(k) + start) if is_sym(k) else k + start, item(k)], "tuple"))
    return SList([SList([i + start, x], "tuple") for i, x in enumerate(I.iter_concrete(it))], "list")


@lib("builtins.zip")
def _zip(I, args, kwargs):
    lists = [I.iter_concrete(a) for a in args]
    return SList([SList(list(t), "tuple") for t in zip(*lists)], "list")


@lib("builtins.reversed")
def _reversed(I, args, kwargs):
    v = args[0]
    sym = I.symbolic_iterable(v)
    if sym is not None:
        cnt, item = sym
        return GenVal(cnt, lambda k: item(simp(to_z3(cnt) - 1 - to_z3(k))))
    return SList(list(reversed(I.iter_concrete(v))), "list")


@lib("builtins.list")
def _list(I, args, kwargs):
    if not args:
        return SList([], "list")
    v = args[0]
    if isinstance(v, SArr) and is_sym(v.len):
        return v.with_kind("list")
    return SList(I.iter_concrete(v), "list")


@lib("builtins.tuple")
def _tuple(I, args, kwargs):
    if not args:
        return SList([], "tuple")
    return SList(I.iter_concrete(args[0]), "tuple")


@lib("builtins.set", "builtins.frozenset")
def _set(I, args, kwargs):
    if not args:
        return SList([], "set")
    items = []
    for x in I.iter_concrete(args[0]):
        if not any(I._plain_ident(x, y) or (isinstance(x, (str, int)) and isinstance(y, (str, int)) and x == y) for y in items):
            items.append(x)
    return SList(items, "set")


@lib("builtins.dict")
def _dict(I, args, kwargs):
    d = SDict()
    if args:
        v = args[0]
        if isinstance(v, SDict):
            d.items.update(v.items)
        else:
            for it in I.iter_concrete(v):
                k, val = I.unpack(it, 2)
                d.items[I.hashable(k)] = val
    for k, v in kwargs.items():
        d.items[k] = v
    return d


@lib("builtins.sorted")
def _sorted(I, args, kwargs):
    items = I.iter_concrete(args[0])
    if all(isinstance(x, (int, str)) and not is_sym(x) for x in items):
        return SList(sorted(items), "list")
    raise Undecided("sorted of symbolic items")


@lib("builtins.filter")
def _filter(I, args, kwargs):
    f, it = args
    out = []
    for x in I.iter_concrete(it):
        keep = I.truth(x if f is None else I.call(f, [x], {}), "filter")
        if keep:
            out.append(x)
    return SList(out, "list")


@lib("builtins.map")
def _map(I, args, kwargs):
    f = args[0]
    lists = [I.iter_concrete(a) for a in args[1:]]
    return SList([I.call(f, list(t), {}) for t in zip(*lists)], "list")


@lib("builtins.hasattr")
def _hasattr(I, args, kwargs):
    return I.hasattr(args[0], args[1])


@lib("builtins.getattr")
def _getattr(I, args, kwargs):
    if not isinstance(args[1], str):
        raise Undecided("getattr with symbolic name")
    if len(args) == 3:
        try:
            return I.getattr(args[0], args[1])
        except SymRaise as e:
            from .interp import exc_class_names
            if "AttributeError" in exc_class_names(e.exc.cls):
                return args[2]
            raise
    return I.getattr(args[0], args[1])


@lib("builtins.setattr")
def _setattr(I, args, kwargs):
    I.setattr(args[0], args[1], args[2])
    return None


@lib("builtins.print", "warnings.warn", "warnings.simplefilter", "warnings.filterwarnings")
def _noop(I, args, kwargs):
    I.ctx.note("warnings.warn / print dropped")
    return None


@lib("builtins.id")
def _id(I, args, kwargs):
    return id(args[0])


@lib("builtins.round")
def _round(I, args, kwargs):
    """round(x) with one argument: nearest integer, ties to the even one (Python 3)"""
    if len(args) != 1 or kwargs:
        raise Undecided("round with ndigits")
    x = args[0]
    if is_intlike(x):
        return x
    if not is_sym(x):
        return round(x)
    xr = ops.as_real(x)
    q = ops.floor_real(I.ctx, xr)
    f = xr - ops.as_real(q)
    q3 = to_z3(q)
    USED.add("round(x): nearest integer, ties to even")
    return simp(z3.If(f < 0.5, q3, z3.If(f > 0.5, q3 + 1, z3.If(q3 % 2 == 0, q3, q3 + 1))))


@lib("builtins.object.__new__", "object.__new__")
def _object_new(I, args, kwargs):
    return SObj(args[0])


@lib("builtins.iter")
def _iter(I, args, kwargs):
    return args[0]


@lib("builtins.slice")
def _slice(I, args, kwargs):
    if len(args) == 1:
        return SSlice(None, args[0], None)
    if len(args) == 2:
        return SSlice(args[0], args[1], None)
    return SSlice(*args)


@lib("functools.lru_cache", "functools.wraps")
def _identity_deco(I, args, kwargs):
    return LibRef("identity")


@lib("identity")
def _identity(I, args, kwargs):
    return args[0]


# =========================================================================== list/dict/str methods

@method("list", "append")
def _l_append(I, recv, args, kwargs):
    if recv.kind != "list":
        raise exc("AttributeError")
    if I.ctx.frozen and id(recv) in I.ctx.frozen:
        I.ctx.mutated.append((recv, "append"))
    recv.items.append(args[0])


@method("list", "extend")
def _l_extend(I, recv, args, kwargs):
    if I.ctx.frozen and id(recv) in I.ctx.frozen:
        I.ctx.mutated.append((recv, "extend"))
    recv.items.extend(I.iter_concrete(args[0]))


@method("list", "index")
def _l_index(I, recv, args, kwargs):
    for i, x in enumerate(recv.items):
        r = I.compare("Eq", x, args[0])
        if I.truth(r, "list.index"):
            return i
    raise exc("ValueError")


@method("list", "copy")
def _l_copy(I, recv, args, kwargs):
    return SList(recv.items, recv.kind)


@method("list", "count")
def _l_count(I, recv, args, kwargs):
    n = 0
    for x in recv.items:
        n = I.binop("Add", n, ops.to_int_term(I.as_bool(I.compare("Eq", x, args[0]))))
    return n


@method("list", "issubset")
def _s_issubset(I, recv, args, kwargs):
    other = I.iter_concrete(args[0])
    return all(any(I.truth(I.compare("Eq", x, y)) for y in other) for x in recv.items)


@method("dict", "get")
def _d_get(I, recv, args, kwargs):
    k = I.hashable(args[0])
    return recv.items.get(k, args[1] if len(args) > 1 else None)


@method("dict", "items")
def _d_items(I, recv, args, kwargs):
    return SList([SList([k, v], "tuple") for k, v in recv.items.items()], "list")


@method("dict", "keys")
def _d_keys(I, recv, args, kwargs):
    return SList(list(recv.items.keys()), "list")


@method("dict", "values")
def _d_values(I, recv, args, kwargs):
    return SList(list(recv.items.values()), "list")


@method("dict", "update")
def _d_update(I, recv, args, kwargs):
    if I.ctx.frozen and id(recv) in I.ctx.frozen:
        I.ctx.mutated.append((recv, "update"))
    if args:
        if isinstance(args[0], SDict):
            recv.items.update(args[0].items)
        else:
            for it in I.iter_concrete(args[0]):
                k_, v_ = I.unpack(it, 2)
                recv.items[I.hashable(k_)] = v_
    recv.items.update(kwargs)


@method("dict", "copy")
def _d_copy(I, recv, args, kwargs):
    return SDict(recv.items)


@method("dict", "pop")
def _d_pop(I, recv, args, kwargs):
    k = I.hashable(args[0])
    if k in recv.items:
        return recv.items.pop(k)
    if len(args) > 1:
        return args[1]
    raise exc("KeyError")


for _m in ("lower", "upper", "strip", "startswith", "endswith", "split", "join", "format", "replace",
           "lstrip", "rstrip", "isdigit", "partition", "rpartition"):
    def _mk(m):
        def f(I, recv, args, kwargs):
            if all(isinstance(a, (str, int)) for a in args):
                r = getattr(recv, m)(*args)
                if isinstance(r, (list, tuple)):
                    return SList(list(r), "list" if isinstance(r, list) else "tuple")
                return r
            if m == "join":
                items = I.iter_concrete(args[0])
                if all(isinstance(x, str) for x in items):
                    return recv.join(items)
                return SStr([("join", recv, tuple(items))])
            if m == "format":
                return SStr([("fmt", recv, tuple(args))])
            raise Undecided(f"str.{m} with symbolic args")
        return f
    METHODS[("str", _m)] = _mk(_m)


# =========================================================================== comparisons / binops on arrays

def elementwise(I, op, a, b, cmp=False):
    """numpy broadcasting for the patterns that occur: array-scalar and same-shape arrays"""
    ctx = I.ctx

    def f(x, y):
        if cmp:
            return ops.scalar_cmp(op, x, y)
        if op in ("BitAnd", "BitOr"):
            return And(x, y) if op == "BitAnd" else Or(x, y)
        ctx.in_quant += 0
        if op == "Div":
            try:
                return pure_arith(I, op, x, y)
            except SymRaise as e:
                # numpy does not raise for a zero divisor inside an array expression (the element becomes inf / nan):
                # marked, so that the engine can turn the path into a refutable obligation instead of an exception
                e.array_div = True
                raise
        return pure_arith(I, op, x, y)
    if isinstance(a, SList):
        a = ops.arr_from_items(a.items)
    if isinstance(b, SList):
        b = ops.arr_from_items(b.items)
    if isinstance(a, SArr) and isinstance(b, SArr):
        if a.ndim != b.ndim:
            # numpy aligns trailing axes: (n, c) op (c,)
            big, small, swap = (a, b, False) if a.ndim > b.ndim else (b, a, True)
            off = big.ndim - small.ndim
            for x, y in zip(big.shape[off:], small.shape):
                if x is not y and not ctx.entails(Eq(x, y)):
                    raise Undecided("broadcasting between different ranks whose trailing shapes are not provably equal")
            dt = "bool" if cmp else result_dtype(op, a.dtype, b.dtype)
            if swap:
                return SArr(big.shape, lambda *i: f(small.fn(*i[off:]), big.fn(*i)), dt, "ndarray")
            return SArr(big.shape, lambda *i: f(big.fn(*i), small.fn(*i[off:])), dt, "ndarray")
        stretch_a, stretch_b = [], []
        for x, y in zip(a.shape, b.shape):
            one_a = (not is_sym(x)) and x == 1
            one_b = (not is_sym(y)) and y == 1
            if x is y or (one_a and one_b):
                stretch_a.append(False)
                stretch_b.append(False)
            elif one_b and (a.ndim > 1 or (a.kind == "ndarray" and b.kind == "ndarray")):
                stretch_a.append(False)
                stretch_b.append(True)        # numpy broadcasting: a dimension of size 1 is repeated
            elif one_a and (a.ndim > 1 or (a.kind == "ndarray" and b.kind == "ndarray")):
                stretch_a.append(True)
                stretch_b.append(False)
            elif ctx.entails(Eq(x, y)):
                stretch_a.append(False)
                stretch_b.append(False)
            else:
                raise Undecided("broadcasting of arrays whose shapes are not provably equal")
        dt = "bool" if cmp else result_dtype(op, a.dtype, b.dtype)
        kind = a.kind if a.kind in INDEX_KINDS else (b.kind if b.kind in INDEX_KINDS else "ndarray")
        if cmp:
            kind = "ndarray"
        if any(stretch_a) or any(stretch_b):
            shape = tuple(y if sa else x for x, y, sa in zip(a.shape, b.shape, stretch_a))
            ia = lambda i: tuple(0 if sa else v for v, sa in zip(i, stretch_a))
            ib = lambda i: tuple(0 if sb else v for v, sb in zip(i, stretch_b))
            return SArr(shape, lambda *i: f(a.fn(*ia(i)), b.fn(*ib(i))), dt, "ndarray")
        return SArr(a.shape, lambda *i: f(a.fn(*i), b.fn(*i)), dt, kind)
    if isinstance(a, SArr):
        dt = "bool" if cmp else result_dtype(op, a.dtype, "real" if is_reallike(b) else "int")
        closed = None
        if a.closed and not cmp and op in ("Add", "Sub") and is_intlike(b):
            closed = (pure_arith(I, op, a.closed[0], b), a.closed[1])
        kind = "ndarray" if cmp else (a.kind if a.kind in INDEX_KINDS or a.kind == "ndarray" else "ndarray")
        if kind == "RangeIndex" and not closed:
            kind = "Int64Index"
        return SArr(a.shape, lambda *i: f(a.fn(*i), b), dt, kind, closed)
    dt = "bool" if cmp else result_dtype(op, "real" if is_reallike(a) else "int", b.dtype)
    closed = None
    if b.closed and not cmp and op == "Add" and is_intlike(a):
        closed = (pure_arith(I, op, a, b.closed[0]), b.closed[1])
    kind = "ndarray" if cmp else (b.kind if b.kind in INDEX_KINDS or b.kind == "ndarray" else "ndarray")
    if kind == "RangeIndex" and not closed:
        kind = "Int64Index"
    return SArr(b.shape, lambda *i: f(a, b.fn(*i)), dt, kind, closed)


def result_dtype(op, d1, d2):
    if op == "Div":
        return "real"
    if "real" in (d1, d2):
        return "real"
    if op in ("BitAnd", "BitOr") and d1 == "bool" and d2 == "bool":
        return "bool"
    return "int"


def pure_arith(I, op, x, y):
    """arithmetic without path effects when called under a quantifier"""
    ctx = I.ctx
    if ctx.in_quant and op in ("FloorDiv", "Mod") and (is_sym(x) or is_sym(y)) and \
            (is_reallike(x) and not is_intlike(x) or is_reallike(y) and not is_intlike(y)):
        # real floor division / modulo (positive divisor assumed, as for the integer case below): x = y * floor(x / y) + r
        xr, yr = ops.as_real(x), ops.as_real(y)
        q = z3.ToReal(z3.ToInt(xr / yr))
        return q if op == "FloorDiv" else xr - yr * q
    if ctx.in_quant and op in ("FloorDiv", "Mod") and (is_sym(x) or is_sym(y)):
        x3, y3 = to_z3(to_int_term(x)), to_z3(to_int_term(y))
        if not is_sym(y) and y > 0:
            return x3 / y3 if op == "FloorDiv" else x3 % y3
        # z3 div/mod agree with Python for positive divisors; contracts must ensure y > 0
        return x3 / y3 if op == "FloorDiv" else x3 % y3
    if ctx.in_quant and op == "Div" and is_sym(y):
        return ops.as_real(x) / ops.as_real(y)
    return ops.scalar_arith(ctx, op, x, y)


def binop(I, op, a, b):
    if isinstance(a, (SArr,)) or isinstance(b, (SArr,)):
        if isinstance(a, SSeries) or isinstance(b, SSeries):
            return series_binop(I, op, a, b)
        if (isinstance(a, SArr) and (is_numlike(b) or isinstance(b, (SArr, SList)))) or \
                (isinstance(b, SArr) and (is_numlike(a) or isinstance(a, (SArr, SList)))):
            return elementwise(I, op, a, b)
    if isinstance(a, SSeries) or isinstance(b, SSeries):
        return series_binop(I, op, a, b)
    if isinstance(a, SList) and isinstance(b, SList) and op == "Add":
        if a.kind != b.kind:
            raise exc("TypeError")
        return SList(a.items + b.items, a.kind)
    if isinstance(a, SList) and isinstance(b, int) and op == "Mult":
        return SList(a.items * b, a.kind)
    if isinstance(a, str) and isinstance(b, str) and op == "Add":
        return a + b
    if isinstance(a, (str, SStr)) and isinstance(b, (str, SStr)) and op == "Add":
        return SStr([("cat", a, b)])
    if isinstance(a, str) and op == "Mod":
        items = b.items if isinstance(b, SList) and b.kind == "tuple" else [b]
        if all(isinstance(x, (str, int)) and not isinstance(x, bool) for x in items):
            return a % (tuple(items) if isinstance(b, SList) else items[0])
        return SStr([("fmt%", a, b)])
    if isinstance(a, SObj) or isinstance(b, SObj):
        dunder = {"Add": "add", "Sub": "sub", "Mult": "mul", "Div": "truediv", "Mod": "mod", "Pow": "pow",
                  "FloorDiv": "floordiv"}.get(op)
        if dunder:
            if isinstance(a, SObj):
                c, m = I.class_lookup(a.cls, f"__{dunder}__")
                if c is not None:
                    return I.call(I.bind(m, a, None), [b], {})
            if isinstance(b, SObj):
                c, m = I.class_lookup(b.cls, f"__r{dunder}__")
                if c is not None:
                    return I.call(I.bind(m, b, None), [a], {})
        raise exc("TypeError")
    if a is None or b is None:
        raise SymRaise(ExcVal(ExtClass("builtins.TypeError"), ()), where=f"binop {op} with None")
    if isinstance(a, Opaque) or isinstance(b, Opaque):
        h = getattr(a, "binop", None) or getattr(b, "binop", None)
        if h:
            return h(I, op, a, b)
    raise Undecided(f"binop {op} on {a!r}, {b!r}")


def compare(I, op, a, b):
    if isinstance(a, SObj) or isinstance(b, SObj):
        dunder = {"Eq": "eq", "NotEq": "ne", "Lt": "lt", "LtE": "le", "Gt": "gt", "GtE": "ge"}[op]
        refl = {"Eq": "eq", "NotEq": "ne", "Lt": "gt", "LtE": "ge", "Gt": "lt", "GtE": "le"}[op]
        if isinstance(a, SObj):
            c, m = I.class_lookup(a.cls, f"__{dunder}__")
            if c is not None:
                return I.call(I.bind(m, a, None), [b], {})
        if isinstance(b, SObj):
            c, m = I.class_lookup(b.cls, f"__{refl}__")
            if c is not None:
                return I.call(I.bind(m, b, None), [a], {})
        if op == "Eq":
            return a is b
        if op == "NotEq":
            return a is not b
        raise exc("TypeError")
    if isinstance(a, SSeries) or isinstance(b, SSeries):
        return series_binop(I, op, a, b, cmp=True)
    if isinstance(a, SArr) or isinstance(b, SArr):
        if (is_numlike(a) or isinstance(a, (SArr, SList))) and (is_numlike(b) or isinstance(b, (SArr, SList))):
            if (isinstance(a, SArr) and a.kind in ("list", "tuple")) or (isinstance(b, SArr) and b.kind in ("list", "tuple")):
                raise Undecided("comparison of symbolic-length lists")
            return elementwise(I, op, a, b, cmp=True)
        if op == "Eq":
            return False
        if op == "NotEq":
            return True
    if isinstance(a, SList) and isinstance(b, SList) and op in ("Eq", "NotEq"):
        if len(a.items) != len(b.items) or a.kind != b.kind:
            r = False
        else:
            r = And(*[I.as_bool(I.compare("Eq", x, y)) for x, y in zip(a.items, b.items)])
        return r if op == "Eq" else Not(r)
    if isinstance(a, SDict) and isinstance(b, SDict) and op in ("Eq", "NotEq"):
        if set(a.items) != set(b.items):
            r = False
        else:
            r = And(*[I.as_bool(I.compare("Eq", a.items[k], b.items[k])) for k in a.items])
        return r if op == "Eq" else Not(r)
    if op in ("Eq", "NotEq"):
        same = _eq_misc(I, a, b)
        return same if op == "Eq" else Not(same)
    if a is None or b is None or isinstance(a, str) or isinstance(b, str):
        raise SymRaise(ExcVal(ExtClass("builtins.TypeError"), ()), where=f"compare {op} {a!r} {b!r}")
    raise Undecided(f"compare {op} on {a!r}, {b!r}")


def _eq_misc(I, a, b):
    if isinstance(a, (ExtClass, LibRef)) and isinstance(b, (ExtClass, LibRef)):
        return norm_path(a.path) == norm_path(b.path)
    if isinstance(a, (ClassVal, FuncVal, AbstractObj, ExtClass, LibRef)) or isinstance(b, (ClassVal, FuncVal, AbstractObj, ExtClass, LibRef)):
        return a is b
    if isinstance(a, SStr) or isinstance(b, SStr):
        if isinstance(a, SStr) and isinstance(b, SStr) and a.parts == b.parts:
            return True
        raise Undecided("equality of formatted strings")
    if isinstance(a, Opaque) or isinstance(b, Opaque):
        if a is b:
            return True
        if isinstance(a, (str, int)) or isinstance(b, (str, int)) or a is None or b is None:
            o = a if isinstance(a, Opaque) else b
            other = b if o is a else a
            eqc = getattr(o, "eq_consts", None)
            if eqc is not None:
                if other in eqc:
                    return eqc[other]
                return False
        raise Undecided(f"equality with opaque value {a!r} == {b!r}")
    if type(a) != type(b):
        return False
    return a is b


def contains(I, container, x):
    if isinstance(container, SArr) and container.ndim == 1:
        n = container.len
        if not is_sym(n):
            return Or(*[I.as_bool(ops.scalar_cmp("Eq", x, container.fn(j))) for j in range(n)])
        from .spec import ForAll
        return Not(ForAll(lambda i: Not(ops.scalar_cmp("Eq", x, container.fn(i))), 0, n))
    raise Undecided(f"`in` on {container!r}")


def iterate(I, it):
    return None


def row(I, a, k):
    if a.ndim == 2:
        r = SArr((a.shape[1],), lambda j: a.fn(k, j), a.dtype, a.kind)
        r.row_of = (a, k)
        return r
    if a.ndim == 3:
        return SArr((a.shape[1], a.shape[2]), lambda j, l: a.fn(k, j, l), a.dtype, a.kind)
    raise Undecided("row of >3-d array")


def with_stmt(I, cm, item, node, env):
    if isinstance(cm, tuple) and cm and cm[0] == "ctxmgr":
        # @contextmanager generator defined in the repo: run up to the yield, body, then the rest
        _, fv, genv = cm
        body = fv.node.body
        run_ctxmgr(I, fv, genv, body, node, env)
        return
    if isinstance(cm, Opaque) and getattr(cm, "is_ctx", False):
        I.exec_block(node.body, env)
        return
    raise Undecided(f"with on {cm!r}")


def run_ctxmgr(I, fv, genv, body, wnode, env):
    """supports the single pattern  `pre...; try: yield finally: post`  and  `pre; yield; post`"""
    pre, rest = [], []
    tri = None
    for idx, s in enumerate(body):
        if isinstance(s, ast.Try) and any(isinstance(n, ast.Yield) for n in ast.walk(s)):
            tri = s
            rest = body[idx + 1:]
            break
        if isinstance(s, ast.Expr) and isinstance(s.value, ast.Yield):
            tri = "plain"
            rest = body[idx + 1:]
            break
        pre.append(s)
    if tri is None:
        raise Undecided("context manager without yield")
    I.exec_block(pre, genv)
    if tri == "plain":
        I.exec_block(wnode.body, env)
        I.exec_block(rest, genv)
        return
    if tri.handlers or len(tri.body) != 1:
        raise Undecided("context manager: try with handlers")
    import sys
    try:
        I.exec_block(wnode.body, env)
    finally:
        et = sys.exc_info()[0]
        from .interp import ReturnSig, BreakSig, ContinueSig
        if et is None or issubclass(et, (SymRaise, ReturnSig, BreakSig, ContinueSig)):
            I.exec_block(tri.finalbody, genv)
    I.exec_block(rest, genv)




# =========================================================================== abstract estimators / ghost trace

class Event:
    """one call on an abstract object, recorded in ctx.trace"""

    def __init__(self, obj, method, args, kwargs, result=None, loop_k=None):
        self.obj = obj
        self.method = method
        self.args = list(args)
        self.kwargs = dict(kwargs)
        self.result = result
        self.loop_k = loop_k

    def arg(self, i, name=None, default=None):
        if i is not None and i < len(self.args):
            return self.args[i]
        if name is not None and name in self.kwargs:
            return self.kwargs[name]
        return default

    def __repr__(self):
        return f"<event {self.obj.tag}.{self.method}({', '.join(map(repr, self.args))}{', ' if self.kwargs else ''}{self.kwargs if self.kwargs else ''})>"


SELF_RETURNING = {"fit", "update", "set_params", "partial_fit"}


def ghost_fun(I, name, sort):
    """R_name(k): the value returned by the abstract call `name` in iteration k of the enclosing cut loop"""
    memo = I.ctx.__dict__.setdefault("ghost_funs", {})
    if name not in memo:
        memo[name] = z3.Function("ret_" + name, z3.IntSort(), sort)
    return memo[name]


def default_abstract_call(I, obj, name, args, kwargs):
    ctx = I.ctx
    ev = Event(obj, name, args, kwargs, None, getattr(ctx, "loop_k", None))
    ctx.trace.append(ev)
    if name in SELF_RETURNING:
        obj.gen += 1
        ev.result = obj
        return obj
    builder = getattr(obj, "results", {}).get(name)
    if builder is not None:
        ev.result = builder(I, obj, ev)
        return ev.result
    if name == "get_params":
        ev.result = SDict(getattr(obj, "params", {}))
        return ev.result
    r = Opaque(f"{obj.tag}.{name}()", prov=ev)
    ev.result = r
    return r


@lib("sklearn.base.clone")
def sk_clone(I, args, kwargs):
    o = args[0]
    if isinstance(o, AbstractObj):
        c = AbstractObj(f"clone({o.tag})", o.isa, dict(getattr(o, "init_attrs", {})), dict(o.methods))
        c.clone_of = o
        c.results = dict(getattr(o, "results", {}))
        c.params = dict(getattr(o, "params", {}))
        c.absent = set(getattr(o, "absent", ()))
        c.closed_isa = getattr(o, "closed_isa", False)
        c.isnot = set(getattr(o, "isnot", ()))
        I.ctx.trace.append(Event(o, "clone", [], {}, c, getattr(I.ctx, "loop_k", None)))
        return c
    if isinstance(o, SObj):
        # sklearn.clone(estimator): new unfitted object built from get_params() -- constructor called with the
        # (cloned) parameters.  Modelled for repo classes by re-running the real __init__ on the parameter values.
        raise Undecided("clone of a concrete repo estimator")
    if isinstance(o, SList):
        return SList([sk_clone(I, [x], {}) for x in o.items], o.kind)
    raise Undecided(f"clone({o!r})")


@lib("time.time", "time.perf_counter")
def _time(I, args, kwargs):
    I.ctx.note("time.time() values are opaque")
    return I.ctx.fresh_real("time")


from . import libnp  # noqa: E402,F401  (registers numpy / pandas models)
from .libnp import getitem, setitem, inplace_array_update  # noqa: E402,F401
from .libpd import series_binop  # noqa: E402,F401


# =========================================================================== sklearn BaseEstimator / joblib (assumed external contracts)

def _init_param_names(I, cls):
    c, m = I.class_lookup(cls, "__init__")
    if c is None or not isinstance(m, FuncVal):
        return []
    a = m.node.args
    return [p.arg for p in (a.posonlyargs + a.args)[1:]] + [p.arg for p in a.kwonlyargs]


def _is_estimator(v):
    return isinstance(v, (SObj, AbstractObj))


@method("SObj", "BaseEstimator.get_params")
def be_get_params(I, recv, args, kwargs):
    """sklearn.base.BaseEstimator.get_params: {p: getattr(self, p)} for every constructor parameter p,
    plus p__k for the parameters k of estimator-valued p when deep"""
    USED.add("sklearn BaseEstimator.get_params / set_params / clone (documented contract, from the constructor signature)")
    deep = arg(args, kwargs, 0, "deep", True)
    out = SDict()
    for p in _init_param_names(I, recv.cls):
        v = I.getattr(recv, p)
        out.items[p] = v
        if deep and _is_estimator(v) and I.hasattr(v, "get_params"):
            sub = I.call(I.getattr(v, "get_params"), [], {})
            if isinstance(sub, SDict):
                for k2, v2 in sub.items.items():
                    out.items[f"{p}__{k2}"] = v2
    return out


@method("SObj", "BaseEstimator.set_params")
def be_set_params(I, recv, args, kwargs):
    """sklearn.base.BaseEstimator.set_params (0.24): valid names are the keys of self.get_params(deep=True) -- the
    VIRTUAL get_params, so composites contribute their component names --, `a__b` goes to valid[a].set_params(b=..)"""
    if not kwargs:
        return recv
    valid = I.call(I.getattr(recv, "get_params"), [], {"deep": True})
    if not isinstance(valid, SDict):
        raise Undecided("get_params did not return a dict")
    nested = {}
    for key, value in kwargs.items():
        k0, delim, rest = key.partition("__")
        if k0 not in valid.items:
            raise SymRaise(ExcVal(ExtClass("builtins.ValueError"), (f"Invalid parameter {k0}",)), where="set_params")
        if delim:
            nested.setdefault(k0, {})[rest] = value
        else:
            I.setattr(recv, key, value)
            valid.items[key] = value
    for k0, sub in nested.items():
        I.call(I.getattr(valid.items[k0], "set_params"), [], sub)
    return recv


@method("SObj", "BaseEstimator._get_param_names")
def be_param_names(I, recv, args, kwargs):
    return SList(sorted(_init_param_names(I, recv.cls if isinstance(recv, SObj) else recv)), "list")


class _Parallel:
    pass


@lib("joblib.Parallel")
def jl_parallel(I, args, kwargs):
    USED.add("joblib.Parallel(...)(delayed(f)(x) for x in xs) == [f(x) for x in xs]  (results in submission order)")
    o = Opaque("joblib.Parallel")
    o.is_parallel = True
    return o


@lib("joblib.delayed")
def jl_delayed(I, args, kwargs):
    return args[0]          # evaluated eagerly, in order


@method("opaque", "__call__")
def opaque_call(I, recv, args, kwargs):
    raise Undecided("call of opaque value")


@method("list", "intersection")
def _s_intersection(I, recv, args, kwargs):
    other = I.iter_concrete(args[0])
    return SList([x for x in recv.items if any(isinstance(x, str) and isinstance(y, str) and x == y for y in other)], "set")


@lib("builtins.next")
def _next(I, args, kwargs):
    g = args[0]
    if isinstance(g, GenVal):
        if g.items is not None:
            if not g.items:
                raise exc("StopIteration")
            return g.items[0]
        n = g.count
        if is_sym(n):
            if I.ctx.branch(to_z3(n) < 1, "next-empty"):
                raise exc("StopIteration")
        elif n < 1:
            raise exc("StopIteration")
        return g.item(0)
    raise Undecided("next() of non-generator")


@lib("sklearn.base.is_regressor")
def sk_is_regressor(I, args, kwargs):
    o = args[0]
    if isinstance(o, AbstractObj):
        return "RegressorMixin" in o.isa
    if isinstance(o, SObj):
        try:
            return I.getattr(o, "_estimator_type") == "regressor"
        except SymRaise:
            return False
    return False


# sklearn building blocks used by PolynomialTrendForecaster: recorded constructor calls (external, assumed)
for _p in ("sklearn.preprocessing.PolynomialFeatures", "sklearn.linear_model.LinearRegression"):
    def _mk(p):
        def f(I, args, kwargs):
            o = Opaque(p.split(".")[-1])
            o.ctor = (p, list(args), dict(kwargs))
            return o
        return f
    LIB[_p] = _mk(_p)


@lib("sklearn.pipeline.make_pipeline")
def sk_make_pipeline(I, args, kwargs):
    USED.add("sklearn make_pipeline(PolynomialFeatures(degree, include_bias), regressor): least-squares polynomial in its input column (assumed)")
    o = AbstractObj("sklearn_pipeline", isa=("Pipeline", "BaseEstimator"))
    o.parts = list(args)
    return o


@lib("sklearn.metrics._regression._check_reg_targets")
def sk_check_reg_targets(I, args, kwargs):
    """sklearn 0.24 _check_reg_targets(y_true, y_pred, multioutput): 1-d inputs become (n, 1) columns, values unchanged"""
    USED.add("sklearn _check_reg_targets: returns its two arrays as 2-d columns with unchanged values (assumed)")
    from .libnp import to_arr

    def col(v):
        a = to_arr(I, v.values if isinstance(v, SSeries) else v)
        if a.ndim == 1:
            return SArr((a.len, 1), lambda i, j: a.fn(i), "real", "ndarray")
        return a
    yt, yp = col(args[0]), col(args[1])
    mo = args[2] if len(args) > 2 else kwargs.get("multioutput")
    return SList(["continuous", yt, yp, mo], "tuple")


@lib("sklearn.utils.validation.check_consistent_length", "sklearn.utils.check_consistent_length")
def sk_ccl(I, args, kwargs):
    return None


for _p in ("sklearn.metrics.mean_absolute_error", "sklearn.metrics.mean_squared_error", "sklearn.metrics.median_absolute_error",
           "sklearn.metrics.accuracy_score"):
    def _mk2(p):
        def f(I, args, kwargs):
            USED.add(f"{p}: external aggregate (mean / median of |e| or e^2 per column, then multioutput average), recorded")
            r = I.ctx.fresh_real(p.split(".")[-1])
            I.ctx.trace.append(Event(None, "sk:" + p.split(".")[-1], list(args), dict(kwargs), r, getattr(I.ctx, "loop_k", None)))
            return r
        return f
    LIB[_p] = _mk2(_p)


@lib("sklearn.model_selection.ParameterGrid", "sklearn.model_selection.ParameterSampler")
def sk_param_grid(I, args, kwargs):
    """candidate enumeration is sklearn's: the contract supplies the resulting candidate list on the tuner object
    (ghost attribute `candidates`), ParameterGrid / ParameterSampler just hand it over (assumed external)"""
    USED.add("sklearn ParameterGrid / ParameterSampler: external enumeration of candidate parameter sets (assumed; candidates supplied symbolically)")
    g = args[0]
    cand = getattr(g, "candidates", None)
    if cand is None:
        raise Undecided("ParameterGrid over a concrete grid")
    return SList(list(cand), "list")


@lib("sklearn.model_selection._search._check_param_grid")
def sk_check_param_grid(I, args, kwargs):
    return None


@lib("sklearn.model_selection.check_cv")
def sk_check_cv(I, args, kwargs):
    USED.add("sklearn.model_selection.check_cv(cv): returns an object that has a split method unchanged (assumed)")
    return args[0]


@lib("logging.getLogger", "logging.StreamHandler")
def _logging(I, args, kwargs):
    o = Opaque("logger")

    def noop(I2, recv, a, kw):
        I2.ctx.note("logging calls dropped")
        return None
    o.opaque_methods = {n: noop for n in ("warn", "warning", "info", "debug", "error", "addHandler", "setLevel")}
    return o


@lib("pandas.Timestamp.now")
def pd_ts_now(I, args, kwargs):
    I.ctx.note("pd.Timestamp.now() values are opaque")
    return Opaque("timestamp")


@lib("itertools.chain")
def _it_chain(I, args, kwargs):
    out = []
    for a in args:
        out.extend(I.iter_concrete(a))
    return SList(out, "list")


@lib("sklearn.utils.check_random_state", "sklearn.utils.validation.check_random_state")
def sk_check_random_state(I, args, kwargs):
    """a numpy RandomState derived from the seed: an opaque, STATEFUL object (every draw advances it) -- draws are not modelled"""
    USED.add("sklearn check_random_state(seed): opaque stateful generator, draws not modelled")
    o = Opaque("RandomState", prov=("check_random_state", args[0] if args else None))
    o.is_rng = True

    def draw(kind):
        def m(I2, recv, a, kw):
            USED.add("RandomState draws: arbitrary values (not modelled)")
            if kw.get("size") is not None or (kind == "randint" and len(a) > 2) or (kind == "choice" and len(a) > 1):
                raise Undecided("array-valued random draw")
            return I2.ctx.fresh_int("draw") if kind in ("randint", "choice") else I2.ctx.fresh_real("draw")
        return m
    o.opaque_methods = {k_: draw(k_) for k_ in ("randint", "uniform", "random", "choice", "rand", "normal")}
    return o


@method("SObj", "object.__init__")
def _ext_base_init(I, recv, args, kwargs):
    """__init__ of a base class outside the repo reached through super(): object.__init__ does nothing; a scikit-learn base
    estimator stores every keyword argument under its own name (the sklearn constructor convention, assumed)"""
    if args:
        raise Undecided("external base-class __init__ with positional arguments")
    if kwargs:
        USED.add("external (sklearn) base-class __init__(**kw): stores each keyword argument under its own name (assumed)")
    for k_, v in kwargs.items():
        I.setattr(recv, k_, v)
    return None


for _p in ("sklearn.tree.DecisionTreeClassifier", "sklearn.tree.DecisionTreeRegressor", "sklearn.decomposition.PCA",
           "sklearn.preprocessing.LabelEncoder", "sklearn.linear_model.LogisticRegression", "sklearn.preprocessing.StandardScaler"):
    def _mk3(p):
        def f(I, args, kwargs):
            o = Opaque(p.split(".")[-1])
            o.ctor = (p, list(args), dict(kwargs))
            return o
        return f
    if _p not in LIB:
        LIB[_p] = _mk3(_p)


@lib("math.sqrt")
def _math_sqrt(I, args, kwargs):
    from .libnp import _sqrt_fun
    x = args[0]
    if not is_sym(x):
        import math as _m
        r = _m.isqrt(int(x)) if float(x).is_integer() and x >= 0 else None
        if r is not None and r * r == int(x):
            return r
    USED.add("math.sqrt: uninterpreted real function (exact for perfect squares)")
    return _sqrt_fun(I.ctx)(ops.as_real(x))


@lib("sklearn.ensemble._base._partition_estimators")
def sk_partition_estimators(I, args, kwargs):
    USED.add("sklearn _partition_estimators(n_estimators, n_jobs): (number of jobs, per-job counts, starts) -- scheduling only, opaque")
    return SList([Opaque("n_jobs (effective)"), Opaque("n_estimators per job"), Opaque("starts")], "tuple")


@lib("functools.partial")
def _functools_partial(I, args, kwargs):
    """functools.partial(f, *a, **kw): calling it calls f with the stored arguments first / the stored keywords as defaults"""
    f, pre = args[0], list(args[1:])
    pkw = dict(kwargs)

    def call(I2, a, kw):
        merged = dict(pkw)
        merged.update(kw)
        return I2.call(f, pre + list(a), merged)
    call._pyvc_native = True
    call.partial_of = (f, pre, pkw)
    return call


@lib("statsmodels.tsa.holtwinters.ExponentialSmoothing")
def sm_exponential_smoothing(I, args, kwargs):
    """statsmodels ExponentialSmoothing(endog, **options): recorded constructor call; .fit() returns an opaque fitted model"""
    USED.add("statsmodels ExponentialSmoothing: external model, constructor call recorded (options not interpreted)")
    o = AbstractObj("statsmodels ExponentialSmoothing", isa=("ExponentialSmoothing",))
    o.ctor = ("statsmodels.tsa.holtwinters.ExponentialSmoothing", list(args), dict(kwargs))
    I.ctx.trace.append(Event(o, "__init__", list(args), dict(kwargs), o, getattr(I.ctx, "loop_k", None)))
    o.results = {"fit": lambda I2, obj, ev: Opaque("fitted statsmodels model", prov=("fit", obj))}
    return o
