"""Verification engine: runs every (contract, case) job -- all paths of the real function --
collects the named obligations and discharges them."""
import importlib
import os
import sys
import time
import traceback

import z3

from . import REPO, VERIF, spec
from .loops import Retype
from .ctx import Ctx, PathEnd, SymRaise, Undecided, SOLVER_STATS
from .interp import Interp, exc_class_names
from .ops import And, Not, Or
from .solve import check
from .source import SourceTable, find_def, func_hash
from .spec import NS, Builder, equiv
from .values import ClassVal, FuncVal, to_z3


def load_contracts():
    """import every sidecar module in /verif/contracts (they register into spec.REGISTRY)"""
    cdir = os.path.join(VERIF, "contracts")
    if VERIF not in sys.path:
        sys.path.insert(0, VERIF)
    for f in sorted(os.listdir(cdir)):
        if f.endswith(".py") and f[0] == "C":
            importlib.import_module("contracts." + f[:-3])
    return spec.REGISTRY


def resolve_target(I, target):
    path, qual = target.split("#")[0].split("::")
    mod = I.src.module_by_path(path)
    parts = qual.split(".")
    ok, v = I.mod_global(mod, parts[0])
    if not ok:
        raise Undecided(f"target {target} not found in the current tree")
    for p in parts[1:]:
        if isinstance(v, ClassVal):
            c, m = I.class_lookup(v, p)
            if c is None:
                raise Undecided(f"target {target} not found in the current tree")
            v = m
        else:
            raise Undecided(f"target {target} not found")
    if not isinstance(v, FuncVal):
        raise Undecided(f"target {target} is not a function")
    return v


MAX_PATHS = 400


def run_job(target, case, opts=None):
    """Symbolically execute one function under its contract for one input case."""
    opts = opts or {}
    reg = spec.REGISTRY
    ctr = reg[target]
    src = SourceTable()
    t0 = time.time()
    out = {"target": target, "case": case, "prop": ctr.prop, "paths": 0, "normal_paths": 0, "raise_paths": 0,
           "cut_paths": 0, "undecided": [], "obligations": [], "notes": list(ctr.notes), "inlined": set(),
           "used_contracts": set(), "lib_used": set(), "kind": "function"}
    work = [[]]
    seen_ob = {}
    n_paths = 0
    canary_done = False
    fv0 = None
    retypes = 0
    while work:
        dec = work.pop()
        n_paths += 1
        if n_paths > MAX_PATHS:
            out["undecided"].append(f"more than {MAX_PATHS} paths")
            break
        ctx = Ctx(dec)
        I = Interp(src, ctx, reg, root=target.split("#")[0])
        spec.CUR = I
        I.root_contract = ctr
        path_obs_start = 0
        try:
            fv = resolve_target(I, target)
            fv0 = fv
            I.root_fv = fv
            B = Builder(I)
            args = ctr.inputs(B, case) if ctr.inputs else {}
            A = NS(args)
            I.root_args = A
            if ctr.pre is not None:
                ctx.assume(ctr.pre(A))
            if ctr.abstract_hook is not None:
                I.abstract_hook = ctr.abstract_hook
            if ctr.frame is not None:
                ctx.frozen = {id(o) for o in ctr.frame(A)}
            outcome = None
            try:
                res = I.call_function(fv, [], dict(args), as_root=True)
                outcome = ("return", res)
            except SymRaise as e:
                outcome = ("raise", e)
            kind, val = outcome
            pid = ctx.path_id()
            if kind == "return":
                out["normal_paths"] += 1
                for (ename, cond) in ctr.raises:
                    ctx.prove(f"raises-complete:{ename}", "raises", Not(cond(A)), info={"path": pid}, assume_after=False)
                if ctr.yields_item is not None:
                    ctx.prove("yield-count", "yield-count", spec.Eq(ctx.ycount, ctr.yields_count(A)), info={"path": pid}, assume_after=False)
                if ctr.returns is not None:
                    want = ctr.returns(A)
                    ctx.prove("post:returns", "post", equiv(val, want), info={"got": repr(val), "want": repr(want), "path": pid}, assume_after=False)
                for ens in ctr.ensures:
                    nm, fn = ens[0], ens[1]
                    try:
                        goal = fn(A, val)
                    except (Undecided, SymRaise, PathEnd, Retype):
                        raise
                    except Exception as ex:     # the result has a shape the postcondition was not written for (changed code)
                        raise Undecided(f"postcondition `{nm}` cannot be evaluated on this result ({type(ex).__name__}: {str(ex)[:120]})")
                    ctx.prove(f"post:{nm}", "post", goal, info={"path": pid}, assume_after=False)
                if ctr.frame is not None:
                    ok = not ctx.mutated
                    ctx.prove("frame", "frame", ok, info={"path": pid, "written": repr(ctx.mutated[:3])}, assume_after=False)
                if not canary_done and opts.get("canary", True):
                    canary_done = True
                    ctx.prove("canary(must fail)", "vacuity", False, assume_after=False, info={"path": pid})
            else:
                out["raise_paths"] += 1
                names = exc_class_names(val.exc.cls)
                allowed = [cond(A) for (en, cond) in ctr.raises if en in names]
                if ctr.may_raise:
                    allowed += [cond(A) for (en, cond) in ctr.may_raise if en in names]
                if any(n in ctr.allow_exc for n in names):
                    allowed.append(True)
                goal = Or(*allowed) if allowed else False
                ctx.prove(f"raises-sound:{val.exc.name}", "raises", goal,
                          info={"path": pid, "where": val.where, "exc": val.exc.name}, assume_after=False)
                for (nm, fn) in ctr.on_raise:
                    ctx.prove(f"on-raise:{nm}", "post", fn(A), info={"path": pid, "exc": val.exc.name}, assume_after=False)
        except PathEnd:
            out["cut_paths"] += 1
        except SymRaise as e:
            # an element-wise closure (comprehension over a symbolic sequence) evaluated lazily by a postcondition raised:
            # some element of the sequence makes the real code raise on this path -- not decided here, the raising path
            # itself is explored separately (branch on the same condition inside the function)
            if getattr(e, "array_div", False) and ctr.zero_divisor_outside:
                out["cut_paths"] += 1
                ctx.note("paths on which a result element divides by zero are outside the contract of "
                         f"{ctr.qualname}: {ctr.zero_divisor_outside}")
            elif getattr(e, "array_div", False) and outcome is not None and outcome[0] == "return":
                # the raising "element" is a zero divisor inside a numpy array expression of the RESULT: numpy returns inf / nan
                # there (no exception), which no clause of a contract over finite values allows -- an obligation that only an
                # infeasible path can discharge; its model is the input with the zero divisor
                ctx.prove("post:result-element-divides-by-zero(inf/nan)", "post", False,
                          info={"path": ctx.path_id(), "where": getattr(e, "where", "")}, assume_after=False)
            else:
                out["undecided"].append(f"postcondition evaluation met a raising element ({e.exc.name if hasattr(e, 'exc') else e}) [path {ctx.path_id()}]")
        except spec.SpecNameError as e:
            # the contract names a local variable / parameter the function does not have (any more): the contract has to be
            # brought up to date with the code -- undecided, not a violation
            out["undecided"].append(f"contract refers to a name the function does not have: {str(e)[:160]} [path {ctx.path_id()}]")
        except Retype as e:
            # a loop variable needs a real-valued havoc: start the whole job again (the memo in loops.HAVOC_REAL now has it)
            retypes += 1
            if retypes > 20:
                out["undecided"].append("too many havoc retype restarts")
                break
            work = [[]]
            n_paths = 0
            canary_done = False
            for key in ("obligations", "undecided"):
                out[key] = []
            for key in ("normal_paths", "raise_paths", "cut_paths"):
                out[key] = 0
            note = f"loop variable {e} is an int before the loop and a real inside: havoc'd as a real"
            if note not in out["notes"]:
                out["notes"].append(note)
            continue
        except Undecided as e:
            out["undecided"].append(f"{e} [path {ctx.path_id()}]")
        except RecursionError:
            out["undecided"].append("python recursion limit")
        # collect
        for ob in ctx.obligations:
            key = (ob.name, ob.info.get("path", ctx.path_id()))
            ob.path = ctx.path_id()
            out["obligations"].append(ob)
            ob.inputs = dict(ctx.inputs)
        for p in ctx.pending:
            work.append(p)
        for n in ctx.notes:
            if n not in out["notes"]:
                out["notes"].append(n)
        out["inlined"] |= I.inlined
        out["used_contracts"] |= I.used_contracts
    out["paths"] = n_paths
    from . import libmodels
    out["lib_used"] = set(libmodels.USED)
    if fv0 is not None:
        out["func_hash"] = func_hash(fv0.node)
        out["lines"] = [fv0.node.lineno, fv0.node.end_lineno]
    out["symex_s"] = time.time() - t0
    out["t_start"] = t0
    discharge(out, opts)
    out.pop("t_start", None)
    out["wall_s"] = time.time() - t0
    return finish(out)


def run_lemma(name, opts=None):
    opts = opts or {}
    lem = spec.LEMMAS[name]
    t0 = time.time()
    out = {"target": "lemma::" + name, "case": "-", "prop": lem.prop, "paths": 1, "normal_paths": 1, "raise_paths": 0,
           "cut_paths": 0, "undecided": [], "obligations": [], "notes": list(lem.notes), "inlined": set(),
           "used_contracts": set(lem.uses), "lib_used": set(), "kind": "lemma"}
    ctx = Ctx([])
    I = Interp(SourceTable(), ctx, spec.REGISTRY)
    spec.CUR = I
    try:
        B = Builder(I)
        goal = lem.fn(B)
        goals = goal if isinstance(goal, list) else [("goal", goal)]
        for nm, g in goals:
            ctx.prove(f"lemma:{nm}", "lemma", g, assume_after=False)
        ctx.prove("canary(must fail)", "vacuity", False, assume_after=False)
    except Undecided as e:
        out["undecided"].append(str(e))
    for ob in ctx.obligations:
        ob.path = "-"
        ob.inputs = dict(ctx.inputs)
        out["obligations"].append(ob)
    out["symex_s"] = time.time() - t0
    discharge(out, opts)
    out["wall_s"] = time.time() - t0
    return finish(out)


def discharge(out, opts):
    timeout = opts.get("timeout_ms", 8000)
    second = opts.get("second_opinion", False)
    # the solver budget of one job: what is left of the job's time limit (obligations that do not get their turn are
    # reported as unknown instead of losing the whole job to the alarm)
    budget_end = out.get("t_start", time.time()) + 0.85 * opts.get("job_timeout_s", 240)
    for ob in out["obligations"]:
        if time.time() > budget_end:
            ob.status, ob.backend, ob.seconds, ob.model, ob.reason = "unknown", "not attempted", 0.0, None, "solver budget of the job exhausted"
            continue
        try:
            if ob.kind == "vacuity":
                # must NOT be provable; `unknown` is accepted (no model for quantified hypotheses)
                st, be, secs, model, reason = check(ob.hyps, ob.goal, {}, timeout_ms=2000, use_cvc5=False)
            else:
                # a goal that is literally False (e.g. a call outside the verified domain of the callee's contract) can only be
                # "proved" by an infeasible path: a short feasibility check, then the bounded candidate search below
                tmo = min(timeout, 2500) if z3.is_false(ob.goal) else timeout
                st, be, secs, model, reason = check(ob.hyps, ob.goal, getattr(ob, "inputs", {}), timeout_ms=tmo,
                                                    second_opinion=second)
        except z3.Z3Exception as e:
            st, be, secs, model, reason = "unknown", "z3-error", 0.0, None, str(e)
        if st == "unknown" and ob.kind != "vacuity":
            from .solve import candidate
            for bound in (3, 5):
                try:
                    cm = candidate(ob.hyps, ob.goal, getattr(ob, "inputs", {}), bound=bound)
                except Exception:
                    cm = None
                if cm is not None:
                    st, model = "candidate", cm
                    reason = (reason or "") + f" | candidate counterexample from bounded quantifier instantiation (bound {bound})"
                    break
        ob.status, ob.backend, ob.seconds, ob.model, ob.reason = st, be, secs, model, reason


def finish(out):
    """make the result picklable (drop z3 terms)"""
    obs = []
    for ob in out["obligations"]:
        obs.append({"name": ob.name, "kind": ob.kind, "status": ob.status, "backend": ob.backend,
                    "seconds": round(ob.seconds, 4), "model": ob.model, "path": ob.path,
                    "info": {k: (v if isinstance(v, (str, int, float, bool, type(None))) else repr(v)) for k, v in ob.info.items()},
                    "reason": getattr(ob, "reason", ""),
                    "goal": (str(ob.goal)[:400] if ob.status != "proved" else "")})
    out["obligations"] = obs
    out["inlined"] = sorted(out["inlined"])
    out["used_contracts"] = sorted(out["used_contracts"])
    out["lib_used"] = sorted(out["lib_used"])
    return out


def job_entry(spec_tuple):
    """entry point for pool workers"""
    kind, name, case, opts = spec_tuple
    import signal

    class JobTimeout(Exception):
        pass

    def _alarm(sig, frm):
        raise JobTimeout()
    signal.signal(signal.SIGALRM, _alarm)
    signal.alarm(int(opts.get("job_timeout_s", 240)))
    try:
        load_contracts()
        try:
            if kind == "lemma":
                return run_lemma(name, opts)
            return run_job(name, case, opts)
        finally:
            signal.alarm(0)
    except JobTimeout:
        return {"target": name, "case": case, "prop": "?", "obligations": [], "kind": kind,
                "undecided": [f"job exceeded its time limit of {opts.get('job_timeout_s', 240)} s"], "paths": 0, "normal_paths": 0,
                "raise_paths": 0, "notes": [], "inlined": [], "used_contracts": [], "lib_used": [], "cut_paths": 0}
    except Exception as e:      # checker crash -> exit 3 upstream
        return {"target": name, "case": case, "crash": traceback.format_exc(), "prop": "?", "obligations": [],
                "undecided": [], "paths": 0, "normal_paths": 0, "raise_paths": 0, "notes": [], "inlined": [],
                "used_contracts": [], "lib_used": [], "cut_paths": 0, "kind": kind}
