"""pyvc -- a small contract-based deductive verifier for the Python subset used by the
functions of /repo that the properties in /verif/properties.jsonl depend on.

It re-reads the real source text of /repo on every run, symbolically executes the real AST
function by function against sidecar contracts (/verif/contracts), turns every contract clause
into named proof obligations and discharges them with z3 / cvc5.  See /verif/DESIGN.md.
"""
import os

REPO = os.environ.get("PYVC_REPO", "/repo")
VERIF = os.path.dirname(os.path.dirname(os.path.abspath(__file__)))
