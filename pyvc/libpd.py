"""pandas Series / DataFrame models.

A Series is (index, values); label based access is only modelled for a *contiguous integer
index* l0, l0+1, ... (index.closed == (l0, 1)) -- global assumption 4 of DESIGN.md section 8.
"""
from fractions import Fraction

import z3

from . import ops
from .ctx import SymRaise, Undecided
from .libmodels import INDEX_KINDS, Indexer, USED, arg, elementwise, lib, method, pure_arith
from .libnp import arr_getitem, filter_arr, to_arr
from .ops import And, Eq, If, Implies, Max, Min, Not, Or, exc, simp
from .values import (NAN, ExcVal, ExtClass, LibRef, Opaque, SArr, SDict, SFrame, SList, SObj, SSeries,
                     SSlice, is_boollike, is_intlike, is_numlike, is_reallike, is_sym, to_int_term, to_z3)


def contiguous(idx):
    return idx.closed is not None and not is_sym(idx.closed[1]) and idx.closed[1] == 1


@lib("pandas.concat")
def pd_concat(I, args, kwargs):
    axis = kwargs.get("axis", 0)
    if isinstance(args[0], Opaque) and getattr(args[0], "listlen", None) is not None:
        # a list accumulated over a loop of symbolic length: blocks stay in list order (pandas, assumed)
        USED.add("pd.concat(list, axis=0): blocks in list order")
        return Opaque("concat", prov=("concat", args[0], axis))
    items = I.iter_concrete(args[0])
    if any(isinstance(p, Opaque) for p in items):
        o = Opaque("concat", prov=("concat", axis, list(items)))

        def agg(name):
            def f(I2, recv, a, kw):
                return Opaque(f"rowwise-{name}", prov=("rowwise", name, kw.get("axis", a[0] if a else 0), list(items)))
            return f
        o.opaque_methods = {n: agg(n) for n in ("mean", "median", "min", "max")}
        return o
    if axis == 0 and all(isinstance(p, SSeries) for p in items):
        out = items[0]
        for p in items[1:]:
            out = s_append(I, out, [p], {})
        return out
    raise Undecided("pd.concat")


@lib("pandas.Series")
def pd_series(I, args, kwargs):
    data = arg(args, kwargs, 0, "data")
    index = arg(args, kwargs, 1, "index")
    if isinstance(data, Opaque):
        o = Opaque("Series(opaque values)", prov=("series", data, index))
        return o
    if isinstance(data, SSeries):
        if index is None:
            return SSeries(data.index, data.values, kwargs.get("name", data.name))
        raise Undecided("Series(series, index=...) re-indexing")
    vals = to_arr(I, data) if data is not None else SArr((0,), lambda i: Fraction(0), "real", "ndarray")
    if index is None:
        n = vals.len
        index = SArr((n,), lambda i: i, "int", "RangeIndex", closed=(0, 1))
    else:
        if isinstance(index, SObj):
            # ForecastingHorizon passed as index: pandas iterates it -> its values
            index = I.call(I.getattr(index, "to_pandas"), [], {})
        index = to_arr(I, index)
        if index.kind not in INDEX_KINDS:
            index = index.with_kind("Int64Index" if index.dtype == "int" else "Index")
        if not (index.len is vals.len) and not I.ctx.entails(Eq(index.len, vals.len)):
            if I.ctx.branch(Not(Eq(index.len, vals.len)), "series-len-mismatch"):
                raise SymRaise(ExcVal(ExtClass("builtins.ValueError"), ()), where="Series: length of values != length of index")
    return SSeries(index, vals.with_kind("ndarray"), kwargs.get("name"))


def series_binop(I, op, a, b, cmp=False):
    """Series o scalar, Series o ndarray (positional), Series o Series with identical index"""
    if isinstance(a, SSeries) and isinstance(b, SSeries):
        if not (a.index is b.index):
            from .spec import equiv
            if not I.ctx.entails(equiv(a.index, b.index)):
                raise Undecided("arithmetic between Series with different indexes (alignment)")
        return SSeries(a.index, elementwise(I, op, a.values, b.values, cmp=cmp), a.name)
    if isinstance(a, SSeries):
        if isinstance(b, SArr) and b.kind in INDEX_KINDS:
            b = b.with_kind("ndarray")
        return SSeries(a.index, elementwise(I, op, a.values, b, cmp=cmp), a.name)
    if isinstance(a, SArr) and a.kind in INDEX_KINDS:
        a = a.with_kind("ndarray")
    return SSeries(b.index, elementwise(I, op, a, b.values, cmp=cmp), b.name)


def _positions_of_labels(I, s_index, labels):
    """labels (SArr of ints) -> positions for a contiguous integer index, KeyError if absent"""
    ctx = I.ctx
    if not contiguous(s_index):
        raise Undecided("label based access on an index that is not a contiguous integer range")
    l0 = s_index.closed[0]
    n = s_index.len
    from .spec import ForAll
    inb = ForAll(lambda i: And(to_z3(labels.fn(i)) >= to_z3(l0), to_z3(labels.fn(i)) < to_z3(l0) + to_z3(n)), 0, labels.len)
    if not ctx.entails(inb):
        if ctx.branch(Not(inb), "label-missing"):
            raise SymRaise(ExcVal(ExtClass("builtins.KeyError"), ()), where="label not in index")
    return SArr(labels.shape, lambda i: pure_arith(I, "Sub", labels.fn(i), l0), "int", "ndarray")


def take(I, s, pos, index_from=None):
    """positional selection with an int array (in-bounds assumed checked by caller)"""
    idx = SArr(pos.shape, lambda i: s.index.fn(pos.fn(i)), s.index.dtype,
               "Int64Index" if s.index.kind == "RangeIndex" else s.index.kind)
    if pos.closed and contiguous(s.index) and not is_sym(pos.closed[1]) and pos.closed[1] == 1:
        idx.closed = (pure_arith(I, "Add", s.index.closed[0], pos.closed[0]), 1)
    if isinstance(s, SSeries):
        vals = SArr(pos.shape, lambda i: s.values.fn(pos.fn(i)), s.values.dtype, "ndarray")
        return SSeries(idx, vals, s.name)
    vals = SArr((pos.len, s.values.shape[1]), lambda i, j: s.values.fn(pos.fn(i), j), s.values.dtype, "ndarray")
    return SFrame(idx, vals, s.columns)


def slice_rows(I, s, start, stop):
    """rows [start, stop) by position"""
    m = ops.slice_len(start, stop)
    idx = arr_getitem(I, s.index, SSlice(start, stop, None))
    if isinstance(s, SSeries):
        vals = arr_getitem(I, s.values, SSlice(start, stop, None))
        return SSeries(idx, vals, s.name)
    vals = SArr((m, s.values.shape[1]), lambda i, j: s.values.fn(pure_arith(I, "Add", start, i), j), s.values.dtype, "ndarray")
    return SFrame(idx, vals, s.columns)


def indexer_getitem(I, ix, idx):
    s = ix.base
    ctx = I.ctx
    col = None
    if isinstance(idx, SList) and idx.kind == "tuple":
        if not isinstance(s, SFrame) or len(idx.items) != 2:
            raise Undecided("tuple indexer")
        idx, col = idx.items
        if not (isinstance(col, SSlice) and col.lo is None and col.hi is None):
            raise Undecided("column selection in .iloc/.loc")
    n = s.index.len
    if ix.which == "iloc":
        if is_intlike(idx):
            i = ops.norm_index(ctx, idx, n)
            if isinstance(s, SSeries):
                return s.values.fn(i)
            raise Undecided("frame.iloc[int]")
        if isinstance(idx, SSlice):
            if idx.step is not None:
                raise Undecided("iloc slice step")
            a, b = ops.clamp_slice(idx.lo, idx.hi, n)
            return slice_rows(I, s, a, b)
        if isinstance(idx, (SArr, SList, SSeries)):
            pos = to_arr(I, idx)
            if pos.dtype == "bool":
                raise Undecided("iloc boolean mask")
            from .spec import ForAll
            inb = ForAll(lambda i: And(to_z3(pos.fn(i)) >= -to_z3(n), to_z3(pos.fn(i)) < to_z3(n)), 0, pos.len)
            guards = z3.And(*ctx.quant_guards) if (ctx.in_quant and getattr(ctx, "quant_guards", None)) else None
            if guards is not None and ctx.entails(z3.Implies(guards, to_z3(inb))):
                pass        # inside an element-wise closure: in bounds for every element of the sequence, no path split
            elif not ctx.entails(inb):
                if ctx.branch(Not(inb), "iloc-oob"):
                    raise SymRaise(ExcVal(ExtClass("builtins.IndexError"), ()), where="iloc positional index out of bounds")
            nonneg = ForAll(lambda i: to_z3(pos.fn(i)) >= 0, 0, pos.len)
            if ctx.entails(nonneg) or (guards is not None and ctx.entails(z3.Implies(guards, to_z3(nonneg)))):
                p2 = pos
            else:
                p2 = SArr(pos.shape, lambda i: simp(z3.If(to_z3(pos.fn(i)) < 0, to_z3(pos.fn(i)) + to_z3(n), to_z3(pos.fn(i)))), "int", "ndarray")
            return take(I, s, p2)
        raise Undecided(f"iloc[{idx!r}]")
    # ---- loc: label based
    if isinstance(idx, SSlice):
        if idx.step is not None:
            raise Undecided("loc slice step")
        if not contiguous(s.index):
            raise Undecided("loc slice on non-contiguous index")
        l0 = s.index.closed[0]
        # label slice is inclusive on both ends; labels outside are clipped (monotone index)
        lo = 0 if idx.lo is None else Max(0, pure_arith(I, "Sub", idx.lo, l0))
        hi = n if idx.hi is None else Min(n, pure_arith(I, "Add", pure_arith(I, "Sub", idx.hi, l0), 1))
        lo = Min(lo, n)
        hi = Max(hi, 0)
        USED.add("Series.loc[a:b] on a sorted integer index: label-inclusive slice, clipped to the index")
        return slice_rows(I, s, lo, hi)
    if isinstance(idx, SObj):
        idx = I.call(I.getattr(idx, "to_pandas"), [], {})
    if isinstance(idx, (SArr, SList)):
        lab = to_arr(I, idx)
        if lab.dtype == "bool":
            return mask_rows(I, s, lab)
        pos = _positions_of_labels(I, s.index, lab)
        r = take(I, s, pos)
        # result index = requested labels
        r.index = lab.with_kind("Int64Index" if lab.kind not in INDEX_KINDS or lab.kind == "RangeIndex" else lab.kind)
        if lab.closed:
            r.index.closed = lab.closed
        return r
    if is_intlike(idx):
        pos = _positions_of_labels(I, s.index, ops.arr_from_items([idx]))
        if isinstance(s, SSeries):
            return s.values.fn(pos.fn(0))
    raise Undecided(f"loc[{idx!r}]")


def mask_rows(I, s, mask):
    vals = filter_arr(I, s.values, mask) if isinstance(s, SSeries) else None
    if vals is None:
        raise Undecided("frame boolean mask")
    idx = filter_arr(I, s.index, mask)
    # both filters use the same mask: tie the two selections together by construction
    raise Undecided("series boolean mask (needs shared selection)")


def series_getitem(I, s, idx):
    """Series.__getitem__: integer keys are LABELS on an integer index (pandas 1.x)"""
    if isinstance(idx, SSlice):
        a, b = ops.clamp_slice(idx.lo, idx.hi, s.index.len)
        return slice_rows(I, s, a, b)          # slices are positional
    if is_intlike(idx):
        USED.add("Series[int] / Series[int array] on an integer index is label based (pandas 1.x)")
        return indexer_getitem(I, Indexer(s, "loc"), idx)
    if isinstance(idx, (SArr, SList)):
        a = to_arr(I, idx)
        if a.dtype == "bool":
            return mask_rows(I, s, a)
        USED.add("Series[int] / Series[int array] on an integer index is label based (pandas 1.x)")
        return indexer_getitem(I, Indexer(s, "loc"), a)
    raise Undecided(f"series[{idx!r}]")


def frame_getitem(I, f, idx):
    raise Undecided("DataFrame.__getitem__")


def pandas_store(I, obj, idx, v):
    raise Undecided("store into Series/DataFrame")


def indexer_store(I, ix, idx, v):
    s = ix.base
    if isinstance(s, SSeries) and ix.which == "iloc" and is_intlike(idx):
        from .libnp import arr_store
        nv = arr_store(I, s.values, idx, v)
        return SSeries(s.index, nv, s.name)
    raise Undecided("store through .iloc/.loc")


# ----------------------------------------------------------------------------- Series methods

@method("series", "to_numpy")
def s_to_numpy(I, recv, args, kwargs):
    return recv.values.with_kind("ndarray")


@method("series", "copy")
def s_copy(I, recv, args, kwargs):
    out = SSeries(recv.index, recv.values, recv.name)
    deep = arg(args, kwargs, 0, "deep", True)
    if deep is False:
        # shallow copy: a new Series object over the SAME data buffer -- a write through it is a write to the original
        out.shares = getattr(recv, "shares", recv)
    elif deep is not True:
        raise Undecided("Series.copy(deep=<symbolic>)")
    return out


@method("series", "rename")
def s_rename(I, recv, args, kwargs):
    return SSeries(recv.index, recv.values, args[0] if args else None)


@method("series", "combine_first")
def s_combine_first(I, recv, args, kwargs):
    """a.combine_first(b): index = sorted union of labels, a's value where a has the label else b's.
    Modelled for contiguous integer indexes whose union is contiguous (overlapping or adjacent)."""
    a, b = recv, args[0]
    if b is None:
        raise exc("AttributeError")
    if not (contiguous(a.index) and contiguous(b.index)):
        raise Undecided("combine_first on non-contiguous indexes")
    ctx = I.ctx
    a0, an = a.index.closed[0], a.index.len
    b0, bn = b.index.closed[0], b.index.len
    a1 = pure_arith(I, "Add", a0, an)     # one past the last label
    b1 = pure_arith(I, "Add", b0, bn)
    # require no gap between the two label ranges (time-ordered batches that touch or overlap)
    nogap = And(to_z3(a0) <= to_z3(b1), to_z3(b0) <= to_z3(a1))
    if not ctx.entails(Or(nogap, Eq(an, 0), Eq(bn, 0))):
        raise Undecided("combine_first: union of the two indexes may have a gap")
    USED.add("Series.combine_first(a, b): union of labels, a's values win (contiguous integer indexes)")
    empty_a = Eq(an, 0)
    empty_b = Eq(bn, 0)
    lo = If(empty_a, b0, If(empty_b, a0, Min(a0, b0)))
    hi = If(empty_a, b1, If(empty_b, a1, Max(a1, b1)))
    n = simp(to_z3(hi) - to_z3(lo))
    lo = simp(lo)

    def val(i):
        lab = pure_arith(I, "Add", lo, i)
        in_a = And(to_z3(lab) >= to_z3(a0), to_z3(lab) < to_z3(a1))
        return If(in_a, a.values.fn(pure_arith(I, "Sub", lab, a0)), b.values.fn(pure_arith(I, "Sub", lab, b0)))
    idx = SArr((n,), lambda i: pure_arith(I, "Add", lo, i), "int", "Int64Index", closed=(lo, 1))
    dt = "real" if "real" in (a.values.dtype, b.values.dtype) else a.values.dtype
    return SSeries(idx, SArr((n,), val, dt, "ndarray"), a.name)


@method("series", "append")
def s_append(I, recv, args, kwargs):
    o = args[0]
    if not isinstance(o, SSeries):
        raise Undecided("Series.append(list)")
    from .libnp import concat1
    idx = concat1(I, [recv.index, o.index]).with_kind("Int64Index")
    vals = concat1(I, [recv.values, o.values])
    if contiguous(recv.index) and contiguous(o.index):
        if I.ctx.entails(Eq(pure_arith(I, "Add", recv.index.closed[0], recv.index.len), o.index.closed[0])):
            idx.closed = (recv.index.closed[0], 1)
    return SSeries(idx, vals, recv.name)


@method("series", "isnull", "isna")
def s_isnull(I, recv, args, kwargs):
    from .libnp import np_isnan
    return SSeries(recv.index, np_isnan(I, [recv.values], {}), recv.name)


@method("frame", "to_numpy")
def f_to_numpy(I, recv, args, kwargs):
    return recv.values.with_kind("ndarray")


@method("frame", "copy")
def f_copy(I, recv, args, kwargs):
    out = SFrame(recv.index, recv.values, recv.columns)
    deep = arg(args, kwargs, 0, "deep", True)
    if deep is False:
        out.shares = getattr(recv, "shares", recv)
    elif deep is not True:
        raise Undecided("DataFrame.copy(deep=<symbolic>)")
    return out


# ----------------------------------------------------------------------------- result tables (evaluate / tuning)

class STable:
    """pd.DataFrame used as an accumulator of result rows: only the number of rows is tracked, every appended row
    is recorded as a ghost event ('table.append', row dict)."""

    def __init__(self, nrows=0, tag="table"):
        self.nrows = nrows
        self.tag = tag
        self.cols = {}


@lib("pandas.DataFrame")
def pd_dataframe(I, args, kwargs):
    if not args and not kwargs:
        return STable(0)
    data = arg(args, kwargs, 0, "data")
    if isinstance(data, STable):
        return data
    t = rows_table_from(I, data)
    if t is not None:
        return t
    if isinstance(data, Opaque) and data.prov is not None and len(args) + len(kwargs) == 1:
        # pd.DataFrame(frame-like): same content (provenance kept), attributes such as .columns may be assigned
        o = Opaque("DataFrame(" + data.tag + ")", prov=data.prov)
        o.setattr_ok = True
        o.attrs = {}
        return o
    if isinstance(data, SArr) and data.ndim == 1 and data.dtype == "obj" and len(args) + len(kwargs) == 1:
        # pd.DataFrame(list of row Series): one row per list element, in list order (cells stay the objects they are)
        USED.add("pd.DataFrame(list of Series): row i is the i-th Series, in list order")
        o = Opaque("DataFrame(rows)", prov=("rows", data))
        o.setattr_ok = True
        o.attrs = {}
        return o
    if isinstance(data, SArr) and data.ndim == 2 and data.dtype != "obj" and set(kwargs) <= {"data"} and len(args) <= 1:
        # pd.DataFrame(2-d array): same cells, default RangeIndex rows / columns
        n, c = data.shape
        return SFrame(SArr((n,), lambda i: i, "int", "RangeIndex", closed=(0, 1)), data.with_kind("ndarray"),
                      SArr((c,), lambda i: i, "int", "RangeIndex", closed=(0, 1)))
    raise Undecided("pd.DataFrame(data)")


from .libmodels import METHODS as _M2, Event as _Event  # noqa: E402


def _t_append(I, recv, args, kwargs):
    row = args[0]
    I.ctx.trace.append(_Event(recv, "table.append", [row], kwargs, None, getattr(I.ctx, "loop_k", None)))
    t = STable(ops.scalar_arith(I.ctx, "Add", recv.nrows, 1), recv.tag)
    return t


def _t_same(I, recv, args, kwargs):
    I.ctx.trace.append(_Event(recv, "table." + I.cur_node.func.attr, list(args), kwargs, None, getattr(I.ctx, "loop_k", None)))
    return STable(recv.nrows, recv.tag)


def _t_transpose(I, recv, args, kwargs):
    return Opaque("transposed table", prov=("transpose", recv))


_M2[("STable", "transpose")] = _t_transpose
_M2[("STable", "append")] = _t_append
_M2[("STable", "drop")] = _t_same
_M2[("STable", "astype")] = _t_same
_M2[("STable", "copy")] = _t_same


# ----------------------------------------------------------------------------- rows / tables of rows (tuning results)

class SRow:
    """pd.Series produced by DataFrame.mean(): named scalar entries (+ arbitrary objects added by item assignment)"""

    def __init__(self, items, prov=None):
        self.items = dict(items)
        self.prov = prov


class SRowsTable:
    """pd.DataFrame built from a list of rows (concrete number of rows)"""

    def __init__(self, rows):
        self.rows = rows
        self.extra = {}          # column name -> SArr of per-row values (e.g. ranks)


def _t_filter(I, recv, args, kwargs):
    t = STable(recv.nrows, recv.tag)
    t.kept = [x for x in I.iter_concrete(kwargs.get("items"))] if kwargs.get("items") is not None else None
    t.src = getattr(recv, "src", recv)
    return t


def _t_mean(I, recv, args, kwargs):
    """column means of an evaluate() table: one uninterpreted real per kept column, provenance = that table"""
    cols = getattr(recv, "kept", None) or ["test_score", "fit_time", "pred_time"]
    src = getattr(recv, "src", recv)
    return SRow({c: I.ctx.fresh_real(f"mean[{c}]") for c in cols}, prov=src)


_M2[("STable", "filter")] = _t_filter
_M2[("STable", "mean")] = _t_mean


def _r_add_prefix(I, recv, args, kwargs):
    return SRow({str(args[0]) + k: v for k, v in recv.items.items()}, recv.prov)


_M2[("SRow", "add_prefix")] = _r_add_prefix


class _Loc:
    def __init__(self, table):
        self.table = table


def rows_table_from(I, data):
    if isinstance(data, SList) and all(isinstance(r, SRow) for r in data.items):
        return SRowsTable(list(data.items))
    return None


def table_column(I, t, col):
    if col in t.extra:
        return t.extra[col]
    vals = [r.items[col] for r in t.rows]
    from .values import is_numlike
    if all(is_numlike(v) for v in vals):
        a = ops.arr_from_items(vals, kind="ndarray", dtype="real")
        a.from_table = (t, col)
        return SSeries(SArr((len(vals),), lambda i: i, "int", "RangeIndex", closed=(0, 1)), a)
    return SList(vals, "list")


def _series_rank(I, recv, args, kwargs):
    """Series.rank(ascending=a) (average method): order-isomorphic to the values (reversed when not ascending)"""
    asc = kwargs.get("ascending", args[0] if args else True)
    asc_b = I.as_bool(asc) if not isinstance(asc, bool) else asc
    if is_sym(asc_b):
        asc_b = I.ctx.branch(asc_b, "rank-ascending")
    v = recv.values
    n = v.len
    if is_sym(n):
        raise Undecided("rank of a series of symbolic length")
    USED.add("Series.rank(ascending): ranks are order-isomorphic to the values (ties equal), reversed when ascending is falsy")
    rk = [I.ctx.fresh_real(f"rank{j}") for j in range(n)]
    for a_ in range(n):
        for b_ in range(n):
            va, vb = ops.as_real(v.fn(a_)), ops.as_real(v.fn(b_))
            lt = (va < vb) if asc_b else (va > vb)
            I.ctx.assume(lt == (rk[a_] < rk[b_]))
    return SSeries(recv.index, ops.arr_from_items(rk, kind="ndarray", dtype="real"))


def _series_argmin(I, recv, args, kwargs):
    """position of the first minimal element"""
    v = recv.values
    n = v.len
    if is_sym(n):
        raise Undecided("argmin of symbolic length")
    if n == 0:
        raise SymRaise(ExcVal(ExtClass("builtins.ValueError"), ()), where="argmin of empty")
    b = I.ctx.fresh_int("argmin")
    I.ctx.assume(And(b >= 0, b < n))
    for j in range(n):
        vj = ops.as_real(v.fn(j))
        I.ctx.assume(Implies(Eq(b, j), And(*[(vj <= ops.as_real(v.fn(k_))) for k_ in range(n)] + [(vj < ops.as_real(v.fn(k_))) for k_ in range(j)])))
    return b


_M2[("series", "rank")] = _series_rank
_M2[("series", "argmin")] = _series_argmin


@method("series", "apply")
def s_apply(I, recv, args, kwargs):
    """Series.apply(f) for a pure scalar function: new series, same index, value i = f(value i)"""
    f = args[0]
    if len(args) != 1 or kwargs:
        raise Undecided("Series.apply with extra arguments")
    vals = recv.values

    def fn(i):
        I.ctx.in_quant += 1
        I.ctx.quant_guards.append(z3.And(to_z3(i) >= 0, to_z3(i) < to_z3(vals.len)))
        try:
            return I.call(f, [vals.fn(i)], {})
        finally:
            I.ctx.quant_guards.pop()
            I.ctx.in_quant -= 1
    probe = fn(I.ctx.fresh_int("apply_i"))
    dt = "bool" if is_boollike(probe) else ("real" if is_reallike(probe) or probe is NAN else ("int" if is_intlike(probe) else "obj"))
    if dt == "obj":
        raise Undecided("Series.apply producing objects")
    USED.add("Series.apply(f): element-wise, f pure")
    return SSeries(recv.index, SArr((vals.len,), fn, dt, "ndarray"), recv.name)


# ----------------------------------------------------------------------------- value-producing Series methods whose VALUES are not modelled
# (fresh result object, same index, uninterpreted values): enough for frame / index statements, says nothing about values

def _fresh_values_like(I, recv, what):
    f = I.ctx.fresh_fun(what, z3.IntSort(), z3.RealSort())
    USED.add(f"Series.{what}: returns a NEW series with the same index; values uninterpreted (not modelled)")
    return SSeries(recv.index, SArr((recv.values.len,), lambda i: f(to_z3(i)), "real", "ndarray"), recv.name)


def _mk_fresh(what):
    def m(I, recv, args, kwargs):
        ip = kwargs.get("inplace")
        if ip is True:
            # in-place variant: the receiver (and whatever shares its buffer) is overwritten, nothing is returned
            for o in (recv, getattr(recv, "shares", None)):
                if o is not None and I.ctx.frozen and id(o) in I.ctx.frozen:
                    I.ctx.mutated.append((o, f"{what}(inplace=True)"))
            recv.values = _fresh_values_like(I, recv, what).values
            return None
        if ip not in (None, False):
            raise Undecided(f"Series.{what}(inplace=<symbolic>)")
        out = _fresh_values_like(I, recv, what)
        I.ctx.trace.append(_Event(None, "series." + what, [recv] + list(args), dict(kwargs), out, getattr(I.ctx, "loop_k", None)))
        return out
    return m


for _w in ("fillna", "replace", "interpolate", "ffill", "bfill"):
    _M2[("series", _w)] = _mk_fresh(_w)


def _s_scalar_agg(what):
    def m(I, recv, args, kwargs):
        USED.add(f"Series.{what}(): uninterpreted aggregate of the values")
        r = I.ctx.fresh_real(what)
        I.ctx.trace.append(_Event(None, "series." + what, [recv] + list(args), dict(kwargs), r, getattr(I.ctx, "loop_k", None)))
        return r
    return m


for _w in ("mean", "median"):
    if ("series", _w) not in _M2:
        _M2[("series", _w)] = _s_scalar_agg(_w)


def _frame_from_dict(I, data, kwargs):
    """pd.DataFrame({...}): an opaque frame that remembers its columns; to_csv / to_pickle on it are recorded ghost events"""
    o = Opaque("DataFrame(columns)", prov=("frame-from-dict", data))
    o.setattr_ok = True
    o.attrs = {}

    def to_csv(I2, recv, a, kw):
        I2.ctx.trace.append(_Event(recv, "to_csv", list(a), dict(kw), None, getattr(I2.ctx, "loop_k", None)))
        return None
    o.opaque_methods = {"to_csv": to_csv}
    return o


_prev_pd_dataframe = pd_dataframe


@lib("pandas.DataFrame")
def pd_dataframe2(I, args, kwargs):
    data = arg(args, kwargs, 0, "data")
    if isinstance(data, SDict) and len(args) + len(kwargs) == 1:
        return _frame_from_dict(I, data, kwargs)
    return _prev_pd_dataframe(I, args, kwargs)


def _s_dropna(I, recv, args, kwargs):
    """Series.dropna(): a NEW series holding the non-missing values in order (length and values unknown here)"""
    n = I.ctx.fresh_int("n_notna")
    I.ctx.assume(And(n >= 0, n <= to_z3(recv.values.len)))
    f = I.ctx.fresh_fun("dropna", z3.IntSort(), z3.RealSort())
    USED.add("Series.dropna(): new series, values not modelled")
    return SSeries(SArr((n,), lambda i: I.ctx.fresh_fun("dropna_label", z3.IntSort(), z3.IntSort())(to_z3(i)), "int", "Int64Index"),
                   SArr((n,), lambda i: f(to_z3(i)), "real", "ndarray"), recv.name)


def _s_all_any(which):
    def m(I, recv, args, kwargs):
        from .libmodels import _all, _any
        return (_all if which == "all" else _any)(I, [recv.values], {})
    return m


_M2[("series", "dropna")] = _s_dropna
_M2[("series", "all")] = _s_all_any("all")
_M2[("series", "any")] = _s_all_any("any")


for _w in ("min", "max", "sum", "std"):
    if ("series", _w) not in _M2:
        _M2[("series", _w)] = _s_scalar_agg(_w)


def _series_idx_extreme(which):
    def m(I, recv, args, kwargs):
        """idxmin / idxmax / argmax: label (position) of the first extreme element, via the argmin model"""
        v = recv.values
        if which in ("idxmax", "argmax"):
            neg = SSeries(recv.index, SArr(v.shape, lambda i: ops.simp(-ops.as_real(v.fn(i))), "real", "ndarray"), recv.name)
            pos = _series_argmin(I, neg, [], {})
        else:
            pos = _series_argmin(I, recv, [], {})
        if which.startswith("idx"):
            return recv.index.fn(pos)
        return pos
    return m


for _w in ("idxmin", "idxmax", "argmax"):
    _M2[("series", _w)] = _series_idx_extreme(_w)
