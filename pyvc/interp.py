"""Symbolic interpreter over the real AST of /repo (see DESIGN.md section 2)."""
import ast
import operator

import z3

from . import ops
from .ctx import PathEnd, SymRaise, Undecided
from .ops import And, Eq, If, Implies, Not, Or, exc, simp
from .values import (NAN, AbstractObj, BoundMethod, ClassVal, ExcVal, ExtClass, FuncVal, GenVal,
                     LibMethod, LibRef, Opaque, SArr, SDict, SFrame, SList, SObj, SSeries,
                     SSlice, SStr, is_boollike, is_intlike, is_numlike, is_reallike, is_sym,
                     is_symbool, is_symint, is_symreal, to_int_term, to_z3)


class ReturnSig(Exception):
    def __init__(self, value):
        self.value = value


class BreakSig(Exception):
    pass


class ContinueSig(Exception):
    pass


class Env:
    def __init__(self, module, func=None, parent=None):
        self.vars = {}
        self.module = module
        self.func = func
        self.parent = parent
        self.collector = None      # list collecting yields of an inlined generator
        self.loop_ord = 0          # ordinal of the next loop statement executed (per function)
        self.entry = {}            # parameter values at entry (for contracts)

    def lookup(self, name):
        e = self
        while e is not None:
            if name in e.vars:
                return True, e.vars[name]
            e = e.parent
        return False, None


class SuperProxy:
    def __init__(self, cls, obj):
        self.cls = cls
        self.obj = obj


BUILTIN_EXC_BASES = {
    "Exception": ["BaseException"], "ValueError": ["Exception"], "TypeError": ["Exception"],
    "AttributeError": ["Exception"], "KeyError": ["LookupError"], "IndexError": ["LookupError"],
    "LookupError": ["Exception"], "NotImplementedError": ["RuntimeError"],
    "RuntimeError": ["Exception"], "AssertionError": ["Exception"],
    "ZeroDivisionError": ["ArithmeticError"], "ArithmeticError": ["Exception"],
    "StopIteration": ["Exception"], "OSError": ["Exception"], "ImportError": ["Exception"],
    "ModuleNotFoundError": ["ImportError"], "BaseException": [],
    "FileNotFoundError": ["OSError"], "UserWarning": ["Warning"], "Warning": ["Exception"],
    "FutureWarning": ["Warning"], "DeprecationWarning": ["Warning"],
}

BUILTIN_NAMES = {
    "len", "isinstance", "issubclass", "range", "int", "float", "bool", "str", "list", "tuple",
    "dict", "set", "abs", "min", "max", "sum", "all", "any", "enumerate", "zip", "reversed",
    "sorted", "hasattr", "getattr", "setattr", "callable", "type", "super", "object", "print",
    "repr", "iter", "next", "map", "filter", "round", "divmod", "id", "slice", "staticmethod",
    "classmethod", "property", "frozenset", "NotImplemented", "Ellipsis", "vars", "open",
    "delattr",
} | set(BUILTIN_EXC_BASES)


def exc_class_names(cls):
    """all class names an exception class is a subclass of"""
    out = set()
    stack = [cls]
    while stack:
        c = stack.pop()
        if isinstance(c, ClassVal):
            out.add(c.name)
            stack.extend(c.bases)
        elif isinstance(c, ExtClass):
            n = c.name
            if n in out:
                continue
            out.add(n)
            for b in BUILTIN_EXC_BASES.get(n, []):
                stack.append(ExtClass("builtins." + b))
    return out


class Interp:
    def __init__(self, sources, ctx, contracts=None, lib=None, modular=True, root=None):
        self.src = sources
        self.ctx = ctx
        self.contracts = contracts or {}     # "path::qualname" -> Contract
        self.modular = modular
        self.root = root                     # key of the function being verified (never modular)
        self.root_contract = None
        self.root_args = None
        self.depth = 0
        self.max_depth = 60
        from . import libmodels
        self.lib = libmodels
        self.inlined = set()
        self.used_contracts = set()
        from .libmodels import default_abstract_call
        self.abstract_hook = default_abstract_call   # fn(I, obj, name, args, kwargs) for abstract objects
        self.cur_node = None
        self.cur_env = None
        from . import loops
        self.lib_loops = loops

    # =========================================================== module level names ====
    def mod_globals(self, mod):
        if mod.globals is None:
            mod.globals = {}
            mod.bindings = {}
            self._scan_bindings(mod, mod.tree.body)
        return mod.globals

    def _scan_bindings(self, mod, body):
        for n in body:
            if isinstance(n, (ast.FunctionDef, ast.ClassDef)):
                mod.bindings[n.name] = n
            elif isinstance(n, ast.Import):
                for a in n.names:
                    mod.bindings[(a.asname or a.name.split(".")[0])] = ("import", a.name, a.asname)
            elif isinstance(n, ast.ImportFrom):
                for a in n.names:
                    mod.bindings[a.asname or a.name] = ("from", n.module, a.name, n.level)
            elif isinstance(n, ast.Assign):
                for t in n.targets:
                    if isinstance(t, ast.Name):
                        mod.bindings[t.id] = ("assign", n.value)
                    elif isinstance(t, ast.Tuple) and isinstance(n.value, ast.Tuple):
                        for tt, vv in zip(t.elts, n.value.elts):
                            if isinstance(tt, ast.Name):
                                mod.bindings[tt.id] = ("assign", vv)
            elif isinstance(n, ast.Try):
                self._scan_bindings(mod, n.body)
            elif isinstance(n, ast.If):
                self._scan_bindings(mod, n.body)
                self._scan_bindings(mod, n.orelse)

    def mod_global(self, mod, name):
        g = self.mod_globals(mod)
        if name in g:
            return True, g[name]
        if name not in mod.bindings:
            return False, None
        b = mod.bindings[name]
        if isinstance(b, ast.FunctionDef):
            v = self.make_func(b, mod, None, None)
        elif isinstance(b, ast.ClassDef):
            v = self.build_class(mod, b)
        elif b[0] == "import":
            full, asname = b[1], b[2]
            target = full if asname else full.split(".")[0]
            v = self.import_module(target)
        elif b[0] == "from":
            v = self.import_from(mod, b[1], b[2], b[3])
        else:
            env = Env(mod)
            try:
                v = self.eval(b[1], env)
            except (Undecided, SymRaise) as e:
                v = Opaque(f"{mod.name}.{name}")
        g[name] = v
        return True, v

    def import_module(self, modname):
        if modname.split(".")[0] == "sktime" and self.src.has(modname):
            return self.src.module(modname)
        return LibRef(modname)

    def import_from(self, mod, modname, name, level=0):
        if level:
            base = mod.name.split(".")
            if not mod.is_pkg:
                base = base[:-1]
            base = base[: len(base) - (level - 1)]
            modname = ".".join(base + ([modname] if modname else []))
        if modname.split(".")[0] == "sktime":
            if self.src.has(modname):
                m = self.src.module(modname)
                ok, v = self.mod_global(m, name)
                if ok:
                    return v
            if self.src.has(modname + "." + name):
                return self.src.module(modname + "." + name)
            raise Undecided(f"cannot resolve from {modname} import {name}")
        return LibRef(modname + "." + name)

    def make_func(self, node, mod, closure, cls):
        kind = "function"
        for d in node.decorator_list:
            dn = d.id if isinstance(d, ast.Name) else (d.attr if isinstance(d, ast.Attribute) else
                                                       (d.func.id if isinstance(d, ast.Call) and isinstance(d.func, ast.Name) else
                                                        (d.func.attr if isinstance(d, ast.Call) and isinstance(d.func, ast.Attribute) else None)))
            if dn in ("staticmethod", "classmethod", "property", "contextmanager"):
                kind = dn
            elif dn in ("lru_cache", "deprecated", "if_delegate_has_method", "njit", "jit", "wraps"):
                self.ctx.note(f"decorator @{dn} treated as identity on {node.name}")
            elif dn == "setter" or (isinstance(d, ast.Attribute) and d.attr == "setter"):
                kind = "setter"
            else:
                self.ctx.note(f"decorator @{dn} treated as identity on {node.name}")
        return FuncVal(node, mod, closure, cls, kind)

    # =========================================================== classes ================
    def build_class(self, mod, node):
        g = self.mod_globals(mod)
        env = Env(mod)
        bases = []
        for b in node.bases:
            v = self.eval(b, env)
            bases.append(self.as_class(v))
        cls = ClassVal(node.name, mod, node, bases)
        g[node.name] = cls     # allow self reference
        for n in node.body:
            if isinstance(n, ast.FunctionDef):
                fv = self.make_func(n, mod, None, cls)
                if fv.kind == "setter":
                    # @<prop>.setter: kept next to the getter, run by Interp.setattr
                    cls.members.setdefault("__setters__", {})[n.name] = fv
                    continue
                cls.members[n.name] = fv
            elif isinstance(n, ast.Assign):
                try:
                    v = self.eval(n.value, env)
                except (Undecided, SymRaise):
                    v = Opaque(f"{node.name}.classattr")
                for t in n.targets:
                    if isinstance(t, ast.Name):
                        cls.members[t.id] = v
        return cls

    def as_class(self, v):
        if isinstance(v, (ClassVal, ExtClass)):
            return v
        if isinstance(v, LibRef):
            return ExtClass(v.path)
        raise Undecided(f"not a class: {v!r}")

    def mro(self, cls):
        if cls.mro is not None:
            return cls.mro
        if isinstance(cls, ExtClass):
            bases = cls.bases
            if not bases and cls.path.startswith("builtins.") and cls.name in BUILTIN_EXC_BASES:
                bases = [ExtClass("builtins." + b) for b in BUILTIN_EXC_BASES[cls.name]]
            seqs = [self.mro(b) for b in bases] + [list(bases)]
        else:
            seqs = [self.mro(b) for b in cls.bases] + [list(cls.bases)]
        res = [cls]
        seqs = [list(s) for s in seqs if s]
        while seqs:
            for s in seqs:
                cand = s[0]
                if not any(cand in t[1:] for t in seqs):
                    break
            else:
                raise Undecided(f"inconsistent MRO for {cls!r}")
            res.append(cand)
            seqs = [[x for x in s if x != cand] for s in seqs]
            seqs = [s for s in seqs if s]
        cls.mro = res
        return res

    def class_lookup(self, cls, name, after=None):
        m = self.mro(cls)
        if after is not None:
            m = m[m.index(after) + 1:]
        for c in m:
            if isinstance(c, ClassVal):
                if name in c.members:
                    return c, c.members[name]
            else:
                r = self.lib.ext_class_member(self, c, name)
                if r is not None:
                    return c, r
        return None, None

    def is_subclass(self, cls, target):
        """target: ClassVal / ExtClass"""
        for c in self.mro(cls):
            if c is target or (isinstance(c, ExtClass) and isinstance(target, ExtClass) and c.path == target.path):
                return True
            if isinstance(c, ClassVal) and isinstance(target, ClassVal) and c.name == target.name and c.module is target.module:
                return True
            if isinstance(c, ExtClass) and isinstance(target, ExtClass) and c.name == target.name and \
                    c.path.startswith("builtins.") == target.path.startswith("builtins."):
                if c.name in BUILTIN_EXC_BASES:
                    return True
        return False

    # =========================================================== attribute access ========
    def getattr(self, obj, name, env=None):
        if isinstance(obj, SObj):
            if name in obj.attrs:
                return obj.attrs[name]
            if name == "__class__":
                return obj.cls
            if name == "__dict__":
                return SDict(obj.attrs)
            c, m = self.class_lookup(obj.cls, name)
            if c is None:
                raise SymRaise(ExcVal(ExtClass("builtins.AttributeError"), (name,)), where=f"{obj!r}.{name}")
            return self.bind(m, obj, obj.cls)
        if isinstance(obj, SuperProxy):
            c, m = self.class_lookup(obj.obj.cls if isinstance(obj.obj, SObj) else obj.obj, name, after=obj.cls)
            if c is None:
                raise SymRaise(ExcVal(ExtClass("builtins.AttributeError"), (name,)))
            return self.bind(m, obj.obj, None)
        if isinstance(obj, ClassVal):
            if name == "__name__":
                return obj.name
            c, m = self.class_lookup(obj, name)
            if c is None:
                raise SymRaise(ExcVal(ExtClass("builtins.AttributeError"), (name,)))
            if isinstance(m, FuncVal) and m.kind == "classmethod":
                return BoundMethod(m, obj)
            return m
        if hasattr(obj, "tree") and hasattr(obj, "bindings") or obj.__class__.__name__ == "Module":
            ok, v = self.mod_global(obj, name)
            if ok:
                return v
            sub = obj.name + "." + name
            if self.src.has(sub):
                return self.src.module(sub)
            raise SymRaise(ExcVal(ExtClass("builtins.AttributeError"), (name,)))
        if isinstance(obj, LibRef):
            if name == "__name__":
                return obj.path.split(".")[-1]
            p = obj.path + "." + name
            if p in ("numpy.nan", "numpy.NaN", "math.nan"):
                return NAN
            return LibRef(p)
        if isinstance(obj, ExtClass):
            if name == "__name__":
                return obj.path.split(".")[-1]
            return LibRef(obj.path + "." + name)
        if isinstance(obj, AbstractObj):
            if name in obj.attrs:
                return obj.attrs[name]
            r = self.lib.abstract_attr(self, obj, name)
            return r
        if isinstance(obj, FuncVal):
            if name == "__name__":
                return obj.name
            raise SymRaise(ExcVal(ExtClass("builtins.AttributeError"), (name,)))
        return self.lib.value_attr(self, obj, name)

    def bind(self, m, obj, cls):
        if isinstance(m, FuncVal):
            if m.kind == "staticmethod":
                return m
            if m.kind == "classmethod":
                return BoundMethod(m, obj.cls if isinstance(obj, SObj) else obj)
            if m.kind == "property":
                return self.call_function(m, [obj], {})
            return BoundMethod(m, obj)
        if isinstance(m, LibMethod):
            return LibMethod(obj, m.name)
        return m

    def hasattr(self, obj, name):
        if isinstance(name, str) and name.startswith("__") and isinstance(obj, (SList, SArr, SDict, str)):
            # protocol methods of builtin containers / arrays are not attributes of the models: answer from a table
            if name in ("__len__", "__iter__", "__getitem__", "__contains__"):
                return True
            if name in ("__call__", "__next__", "__enter__", "__exit__", "__array_interface__"):
                return False
            raise Undecided(f"hasattr(<container>, {name!r})")
        try:
            self.getattr(obj, name)
            return True
        except SymRaise as e:
            if "AttributeError" in exc_class_names(e.exc.cls):
                return False
            raise

    def setattr(self, obj, name, value):
        if isinstance(obj, SObj):
            # property setters are not modelled; data attributes only
            c, m = self.class_lookup(obj.cls, name)
            if isinstance(m, FuncVal) and m.kind == "property":
                setters = c.members.get("__setters__", {}) if c is not None else {}
                st = setters.get(name)
                if st is None:
                    raise Undecided(f"assignment through property {name} (no setter found in the defining class)")
                self.call_function(st, [obj, value], {})
                return
            if self.ctx.frozen and id(obj) in self.ctx.frozen:
                self.ctx.mutated.append((obj, name))
            obj.attrs[name] = value
            self.ctx.writes.append((obj, name, value))
            return
        if isinstance(obj, ClassVal):
            obj.members[name] = value
            return
        if isinstance(obj, AbstractObj):
            obj.attrs[name] = value
            self.ctx.writes.append((obj, name, value))
            return
        if isinstance(obj, SSeries) and name == "index" and isinstance(value, SArr) and value.ndim == 1:
            # s.index = labels: same values, new labels; pandas rejects a different length
            if not self.ctx.entails(Eq(value.len, obj.index.len)):
                if self.ctx.branch(Not(Eq(value.len, obj.index.len)), "index-length-mismatch"):
                    raise SymRaise(ExcVal(ExtClass("builtins.ValueError"), ()), where="Length mismatch")
            if self.ctx.frozen and id(obj) in self.ctx.frozen:
                self.ctx.mutated.append((obj, "index"))
            obj.index = value
            return
        if isinstance(obj, SFrame) and name == "columns":
            # df.columns = labels: same cells, new column labels; pandas rejects a different number of labels
            ncol = obj.values.shape[1]
            nlab = len(value.items) if isinstance(value, SList) else (value.len if isinstance(value, SArr) else None)
            if nlab is None:
                raise Undecided("DataFrame.columns = <unknown>")
            if not self.ctx.entails(Eq(nlab, ncol)):
                if self.ctx.branch(Not(Eq(nlab, ncol)), "columns-length-mismatch"):
                    raise SymRaise(ExcVal(ExtClass("builtins.ValueError"), ()), where="Length mismatch")
            if self.ctx.frozen and id(obj) in self.ctx.frozen:
                self.ctx.mutated.append((obj, "columns"))
            obj.columns = value
            return
        if isinstance(obj, Opaque) and getattr(obj, "setattr_ok", False):
            if getattr(obj, "attrs", None) is None:
                obj.attrs = {}
            obj.attrs[name] = value
            return
        raise Undecided(f"setattr on {obj!r}")

    # =========================================================== truthiness ==============
    def truth(self, v, what="truth"):
        if isinstance(v, bool):
            return v
        if v is None:
            return False
        if is_symbool(v):
            return self.ctx.branch(v, what)
        if isinstance(v, int):
            return v != 0
        if is_symint(v) or is_symreal(v):
            return self.ctx.branch(v != 0, what)
        if isinstance(v, (float,)):
            return v != 0
        if isinstance(v, str):
            return len(v) > 0
        if isinstance(v, SList):
            return len(v.items) > 0
        if isinstance(v, SDict):
            return len(v.items) > 0
        if isinstance(v, SArr):
            if v.kind in ("list", "tuple", "range"):
                n = v.len
                return n != 0 if not is_sym(n) else self.ctx.branch(n != 0, what)
            raise Undecided("truth value of an array")
        if isinstance(v, Opaque) and not getattr(v, "truthy", False):
            # nothing is known about an opaque value, so neither is its truth value (None, 0, "" and [] are possible):
            # one symbolic boolean per opaque object, branched on like any other condition
            b = getattr(v, "_truth_sym", None)
            if b is None:
                b = z3.Bool(f"truth({v.tag}#{v.id})")
                v._truth_sym = b
            return self.ctx.branch(b, what)
        if isinstance(v, (SObj, AbstractObj, FuncVal, ClassVal, BoundMethod, LibRef, ExtClass, Opaque)):
            if isinstance(v, SObj):
                c, m = self.class_lookup(v.cls, "__len__")
                if c is not None:
                    n = self.call(self.bind(m, v, None), [], {})
                    return self.truth(n, what)
            return True
        if v is NAN:
            return True
        if isinstance(v, SStr):
            return True
        raise Undecided(f"truth of {v!r}")

    def as_bool(self, v):
        """value -> bool / z3 Bool without branching where possible"""
        if isinstance(v, bool) or is_symbool(v):
            return v
        if v is None:
            return False
        if isinstance(v, int):
            return v != 0
        if is_symint(v) or is_symreal(v):
            return v != 0
        return self.truth(v)

    # =========================================================== expressions ============
    def eval(self, node, env):
        m = getattr(self, "e_" + node.__class__.__name__, None)
        if m is None:
            raise Undecided(f"expression {node.__class__.__name__} (line {getattr(node, 'lineno', '?')})")
        return m(node, env)

    def e_Constant(self, node, env):
        v = node.value
        if isinstance(v, float):
            from fractions import Fraction
            return Fraction(v) if v == v and abs(v) != float("inf") else (NAN if v != v else v)
        return v

    def e_Name(self, node, env):
        ok, v = env.lookup(node.id)
        if ok:
            return v
        ok, v = self.mod_global(env.module, node.id)
        if ok:
            return v
        if node.id in BUILTIN_NAMES:
            if node.id in BUILTIN_EXC_BASES:
                return ExtClass("builtins." + node.id)
            return LibRef("builtins." + node.id)
        raise SymRaise(ExcVal(ExtClass("builtins.NameError"), (node.id,)), where=f"name {node.id}")

    def e_Attribute(self, node, env):
        obj = self.eval(node.value, env)
        return self.getattr(obj, node.attr, env)

    def e_Tuple(self, node, env):
        return SList(self._elts(node.elts, env), "tuple")

    def e_List(self, node, env):
        return SList(self._elts(node.elts, env), "list")

    def e_Set(self, node, env):
        return SList(self._elts(node.elts, env), "set")

    def _elts(self, elts, env):
        out = []
        for e in elts:
            if isinstance(e, ast.Starred):
                out.extend(self.iter_concrete(self.eval(e.value, env)))
            else:
                out.append(self.eval(e, env))
        return out

    def e_Dict(self, node, env):
        d = SDict()
        for k, v in zip(node.keys, node.values):
            if k is None:
                other = self.eval(v, env)
                if not isinstance(other, SDict):
                    raise Undecided("** of non-dict")
                d.items.update(other.items)
            else:
                d.items[self.hashable(self.eval(k, env))] = self.eval(v, env)
        return d

    def hashable(self, k):
        if isinstance(k, (str, int, bool, type(None))):
            return k
        if isinstance(k, SList) and k.kind == "tuple":
            return tuple(self.hashable(x) for x in k.items)
        if isinstance(k, SStr):
            return k
        if isinstance(k, (SObj, AbstractObj, ClassVal, FuncVal, LibRef, ExtClass)):
            return k
        raise Undecided(f"symbolic dict key {k!r}")

    def e_JoinedStr(self, node, env):
        parts = []
        allc = True
        for v in node.values:
            if isinstance(v, ast.Constant):
                parts.append(v.value)
            else:
                try:
                    x = self.eval(v.value, env)
                except SymRaise:
                    raise
                if isinstance(x, (str, int)) and not isinstance(x, bool):
                    parts.append(str(x))
                else:
                    allc = False
                    parts.append(("v", x))
        if allc:
            return "".join(parts)
        return SStr(parts)

    def e_FormattedValue(self, node, env):
        return self.eval(node.value, env)

    def e_Lambda(self, node, env):
        fv = FuncVal(node, env.module, env, env.func.cls if env.func else None, "function")
        return fv

    def e_IfExp(self, node, env):
        c = self.eval(node.test, env)
        if self.ctx.in_quant and is_symbool(c):
            # inside an element-wise closure: no path split on the element, both arms become one conditional term
            a, b = self.eval(node.body, env), self.eval(node.orelse, env)
            if all(isinstance(x, (bool, int)) or is_numlike(x) or is_symbool(x) or x is NAN for x in (a, b)):
                return If(c, a, b)
            raise Undecided("conditional expression with non-scalar arms inside an element-wise closure")
        if self.truth(c, f"ifexp@{node.lineno}"):
            return self.eval(node.body, env)
        return self.eval(node.orelse, env)

    def e_BoolOp(self, node, env):
        isand = isinstance(node.op, ast.And)
        v = None
        for i, e in enumerate(node.values):
            v = self.eval(e, env)
            if i == len(node.values) - 1:
                return v
            t = self.truth(v, f"boolop@{node.lineno}.{i}")
            if isand and not t:
                return v
            if not isand and t:
                return v
        return v

    def e_UnaryOp(self, node, env):
        v = self.eval(node.operand, env)
        return self.unary(node.op.__class__.__name__, v)

    def unary(self, op, v):
        if op == "Not":
            if isinstance(v, (bool,)) or is_symbool(v):
                return Not(v)
            return not self.truth(v, "not")
        if op == "USub":
            if isinstance(v, SArr):
                return ops.map_arr(v, lambda x: self.unary("USub", x))
            if isinstance(v, SSeries):
                return SSeries(v.index, self.unary("USub", v.values), v.name)
            if is_numlike(v):
                v = to_int_term(v)
                return simp(-v) if is_sym(v) else -v
            if v is NAN:
                return NAN
        if op == "UAdd":
            return v
        if op == "Invert":
            if isinstance(v, bool):
                return -1 - int(v)         # ~True == -2, ~False == -1 (ints, both truthy)
            if is_symbool(v):
                return simp(-1 - z3.If(v, 1, 0))
            if is_intlike(v):
                return simp(-1 - v) if is_sym(v) else ~v
            if isinstance(v, SArr) and v.dtype == "bool":
                return ops.map_arr(v, lambda x: Not(x))
            if isinstance(v, SSeries) and v.values.dtype == "bool":
                return SSeries(v.index, ops.map_arr(v.values, lambda x: Not(x)), v.name)
        raise Undecided(f"unary {op} on {v!r}")

    def e_BinOp(self, node, env):
        a = self.eval(node.left, env)
        b = self.eval(node.right, env)
        return self.binop(node.op.__class__.__name__, a, b)

    def binop(self, op, a, b):
        if (is_numlike(a) or a is NAN) and (is_numlike(b) or b is NAN):
            if op in ("BitAnd", "BitOr") and is_boollike(a) and is_boollike(b):
                return And(a, b) if op == "BitAnd" else Or(a, b)
            return ops.scalar_arith(self.ctx, op, a, b)
        return self.lib.binop(self, op, a, b)

    def e_Compare(self, node, env):
        left = self.eval(node.left, env)
        result = None
        for i, (op, rn) in enumerate(zip(node.ops, node.comparators)):
            right = self.eval(rn, env)
            r = self.compare(op.__class__.__name__, left, right)
            if i == len(node.ops) - 1 and result is None:
                return r
            if result is None:
                result = r
            else:
                result = And(self.as_bool(result), self.as_bool(r))
            left = right
        return result

    def compare(self, op, a, b):
        if op == "Is":
            return self.identical(a, b)
        if op == "IsNot":
            return Not(self.identical(a, b))
        if op == "In":
            return self.contains(b, a)
        if op == "NotIn":
            return Not(self.contains(b, a))
        if (is_numlike(a) or a is None or isinstance(a, str) or a is NAN) and \
                (is_numlike(b) or b is None or isinstance(b, str) or b is NAN):
            if (a is None or b is None or isinstance(a, str) or isinstance(b, str)) and op not in ("Eq", "NotEq"):
                if isinstance(a, str) and isinstance(b, str):
                    return {"Lt": a < b, "LtE": a <= b, "Gt": a > b, "GtE": a >= b}[op]
                raise exc("TypeError")
            return ops.scalar_cmp(op, a, b)
        return self.lib.compare(self, op, a, b)

    def identical(self, a, b):
        if a is None or b is None:
            return a is None and b is None
        if isinstance(a, bool) and isinstance(b, bool):
            return a == b
        if is_symbool(a) or is_symbool(b):
            if is_boollike(a) and is_boollike(b):
                return Eq(a, b)
            return False
        if is_numlike(a) and is_numlike(b):
            if isinstance(a, int) and isinstance(b, int):
                return a == b
            raise Undecided("`is` on numbers")
        if isinstance(a, str) and isinstance(b, str):
            return a == b
        if isinstance(a, (ExtClass, LibRef)) and isinstance(b, (ExtClass, LibRef)):
            return a.path == b.path
        if isinstance(a, Opaque) or isinstance(b, Opaque):
            if a is b:
                return True
            pa = getattr(a, "distinct", False) or getattr(b, "distinct", False)
            if pa:
                return False
            raise Undecided("identity of opaque values")
        return a is b

    def contains(self, container, x):
        if isinstance(container, SList):
            out = False
            for it in container.items:
                out = Or(out, self.as_bool(self.compare("Eq", x, it)) if not self._plain_ident(x, it) else True)
                if out is True:
                    return True
            return out
        if isinstance(container, SDict):
            return self.hashable(x) in container.items
        if isinstance(container, str) and isinstance(x, str):
            return x in container
        return self.lib.contains(self, container, x)

    def _plain_ident(self, a, b):
        try:
            return a is b and not is_sym(a)
        except Exception:
            return False

    def e_Subscript(self, node, env):
        obj = self.eval(node.value, env)
        idx = self.eval_index(node.slice, env)
        return self.getitem(obj, idx)

    def eval_index(self, s, env):
        if isinstance(s, ast.Slice):
            return SSlice(self.eval(s.lower, env) if s.lower else None,
                          self.eval(s.upper, env) if s.upper else None,
                          self.eval(s.step, env) if s.step else None)
        if isinstance(s, ast.Tuple):
            return SList([self.eval_index(e, env) for e in s.elts], "tuple")
        return self.eval(s, env)

    def getitem(self, obj, idx):
        if isinstance(obj, Opaque) and getattr(obj, "subscriptable", False):
            # an element of an unknown container is another unknown value (never the same object as a different argument);
            # only for opaques created as free constructor arguments, where every contract allows the lookup to raise
            key = repr(idx)
            cache = obj.__dict__.setdefault("_items", {})
            if key not in cache:
                o = Opaque(f"{obj.tag}[{key}]", prov=obj)
                o.distinct = True
                o.subscriptable = True
                cache[key] = o
            return cache[key]
        if isinstance(obj, SList):
            if isinstance(idx, SSlice):
                lo, hi, st = idx.lo, idx.hi, idx.step
                if any(is_sym(x) for x in (lo, hi, st) if x is not None):
                    raise Undecided("symbolic slice of a concrete list")
                return SList(obj.items[slice(lo, hi, st)], obj.kind)
            if is_sym(idx):
                n = len(obj.items)
                i = ops.norm_index(self.ctx, idx, n)
                i = simp(i)
                if not is_sym(i):
                    return obj.items[i]
                if all(is_numlike(x) for x in obj.items):
                    return ops.arr_from_items(obj.items).fn(i)
                # split on the concrete position
                for j in range(n):
                    if self.ctx.branch(to_z3(i) == j, f"listidx={j}"):
                        return obj.items[j]
                raise PathEnd("list index")
            if not isinstance(idx, int):
                raise exc("TypeError")
            try:
                return obj.items[idx]
            except IndexError:
                raise exc("IndexError")
        if isinstance(obj, SDict):
            k = self.hashable(idx)
            if k not in obj.items:
                raise exc("KeyError")
            return obj.items[k]
        if isinstance(obj, str):
            if isinstance(idx, SSlice):
                return obj[slice(idx.lo, idx.hi, idx.step)]
            return obj[idx]
        if isinstance(obj, SObj):
            c, m = self.class_lookup(obj.cls, "__getitem__")
            if c is None:
                raise exc("TypeError")
            return self.call(self.bind(m, obj, None), [idx], {})
        return self.lib.getitem(self, obj, idx)

    def e_Call(self, node, env):
        f = self.eval(node.func, env)
        args = []
        for a in node.args:
            if isinstance(a, ast.Starred):
                args.extend(self.iter_concrete(self.eval(a.value, env)))
            else:
                args.append(self.eval(a, env))
        kwargs = {}
        for k in node.keywords:
            if k.arg is None:
                d = self.eval(k.value, env)
                if not isinstance(d, SDict):
                    raise Undecided("**kwargs of non-dict")
                for kk, vv in d.items.items():
                    kwargs[kk] = vv
            else:
                kwargs[k.arg] = self.eval(k.value, env)
        # zero-argument super()
        if isinstance(f, LibRef) and f.path == "builtins.super" and not args:
            ok, selfv = env.lookup(self._first_param(env.func))
            return SuperProxy(env.func.cls, selfv)
        if isinstance(f, LibRef) and f.path == "builtins.super" and len(args) == 2:
            return SuperProxy(args[0], args[1])
        self.cur_env = env
        self.cur_node = node
        return self.call(f, args, kwargs)

    def _first_param(self, fv):
        return fv.node.args.args[0].arg

    def e_ListComp(self, node, env):
        return self._comp(node, env, "list")

    def e_GeneratorExp(self, node, env):
        return self._comp(node, env, "list")

    def e_SetComp(self, node, env):
        return self._comp(node, env, "set")

    def e_DictComp(self, node, env):
        out = SDict()
        sub = Env(env.module, env.func, env)

        def rec(gi):
            if gi == len(node.generators):
                out.items[self.hashable(self.eval(node.key, sub))] = self.eval(node.value, sub)
                return
            g = node.generators[gi]
            for item in self.iter_concrete(self.eval(g.iter, sub)):
                self.assign(g.target, item, sub)
                if all(self.truth(self.eval(c, sub)) for c in g.ifs):
                    rec(gi + 1)
        rec(0)
        return out

    def _comp(self, node, env, kind):
        sub = Env(env.module, env.func, env)
        if len(node.generators) == 1 and not node.generators[0].ifs:
            g = node.generators[0]
            it = self.eval(g.iter, sub)
            sym = self.symbolic_iterable(it)
            if sym is not None:
                # pure element expression over a symbolic-length sequence -> SArr by closure
                count, item = sym
                elt = node.elt

                def fn(i, sub=sub, g=g, item=item, elt=elt):
                    e2 = Env(sub.module, sub.func, sub)
                    self.assign(g.target, item(i), e2)
                    self.ctx.in_quant += 1
                    # element i exists only for 0 <= i < count: index checks inside the element expression may use that
                    self.ctx.quant_guards.append(z3.And(to_z3(i) >= 0, to_z3(i) < to_z3(count)))
                    try:
                        return self.eval(elt, e2)
                    finally:
                        self.ctx.quant_guards.pop()
                        self.ctx.in_quant -= 1
                probe = fn(self.ctx.fresh_int("cmp_i"))
                dtype = "real" if is_reallike(probe) else ("bool" if is_boollike(probe) else
                                                           ("int" if is_intlike(probe) else "obj"))
                return SArr((count,), fn, dtype, "list")
        out = []

        def rec(gi):
            if gi == len(node.generators):
                out.append(self.eval(node.elt, sub))
                return
            g = node.generators[gi]
            for item in self.iter_concrete(self.eval(g.iter, sub)):
                self.assign(g.target, item, sub)
                if all(self.truth(self.eval(c, sub), "compif") for c in g.ifs):
                    rec(gi + 1)
        rec(0)
        return SList(out, kind)

    def e_Starred(self, node, env):
        raise Undecided("starred expression")

    def e_Yield(self, node, env):
        v = self.eval(node.value, env) if node.value is not None else None
        self.do_yield(v, env, node)
        return None

    def e_NamedExpr(self, node, env):
        v = self.eval(node.value, env)
        self.assign(node.target, v, env)
        return v

    # =========================================================== iteration ==============
    def symbolic_iterable(self, it):
        """-> (count, item(k)) for sequences of symbolic length, else None"""
        if isinstance(it, SArr) and it.ndim >= 1 and is_sym(it.len):
            if it.ndim == 1:
                return it.len, (lambda k: it.fn(k))
            return it.len, (lambda k: self.lib.row(self, it, k))
        if isinstance(it, GenVal) and it.items is None:
            return it.count, it.item
        if isinstance(it, SSeries) and is_sym(it.index.len):
            return it.index.len, (lambda k: it.values.fn(k))
        return None

    def iter_concrete(self, it):
        """iterate a value of concrete length -> python list of values"""
        if isinstance(it, SList):
            return list(it.items)
        if isinstance(it, SDict):
            return list(it.items.keys())
        if isinstance(it, str):
            return list(it)
        if isinstance(it, GenVal):
            if it.items is not None:
                return list(it.items)
            n = simp(it.count)
            if not is_sym(n):
                return [it.item(k) for k in range(n)]
            raise Undecided("iteration over a generator of symbolic length without invariant")
        if isinstance(it, SArr):
            n = simp(it.len)
            if is_sym(n):
                raise Undecided("iteration over a sequence of symbolic length without invariant")
            if it.ndim == 1:
                return [it.fn(k) for k in range(n)]
            return [self.lib.row(self, it, k) for k in range(n)]
        if isinstance(it, SSeries):
            return self.iter_concrete(it.values)
        if isinstance(it, SObj):
            c, m = self.class_lookup(it.cls, "__iter__")
            if c is not None:
                return self.iter_concrete(self.call(self.bind(m, it, None), [], {}))
            c, m = self.class_lookup(it.cls, "__getitem__")
            c2, m2 = self.class_lookup(it.cls, "__len__")
            if c is not None and c2 is not None:
                n = simp(self.call(self.bind(m2, it, None), [], {}))
                if is_sym(n):
                    raise Undecided("iteration over object of symbolic length")
                return [self.call(self.bind(m, it, None), [k], {}) for k in range(n)]
        r = self.lib.iterate(self, it)
        if r is not None:
            return r
        raise Undecided(f"iteration over {it!r}")

    # =========================================================== statements =============
    def exec_block(self, stmts, env):
        for s in stmts:
            self.exec(s, env)

    def exec(self, node, env):
        m = getattr(self, "x_" + node.__class__.__name__, None)
        if m is None:
            raise Undecided(f"statement {node.__class__.__name__} (line {node.lineno})")
        return m(node, env)

    def x_Expr(self, node, env):
        if isinstance(node.value, ast.Constant):
            return
        self.eval(node.value, env)

    def x_Pass(self, node, env):
        pass

    def x_Assign(self, node, env):
        v = self.eval(node.value, env)
        for t in node.targets:
            self.assign(t, v, env)

    def x_AnnAssign(self, node, env):
        if node.value is not None:
            self.assign(node.target, self.eval(node.value, env), env)

    def x_AugAssign(self, node, env):
        if isinstance(node.target, ast.Name):
            cur = self.eval(node.target, env)
            v = self.eval(node.value, env)
            if isinstance(cur, SList) and cur.kind == "list" and isinstance(node.op, ast.Add):
                cur.items.extend(self.iter_concrete(v))
                return
            new = self.binop(node.op.__class__.__name__, cur, v)
            if isinstance(cur, SArr) and cur.kind == "ndarray" and isinstance(new, SArr):
                # `a op= b` on a numpy array works IN PLACE: every alias of the buffer sees it, and so does the array it is a
                # view of (frame obligations must see the write); values seen through a base array are not updated
                # here (an Undecided is raised if such a base is read again would be needed -- conservatively we mark it)
                self.lib.inplace_array_update(self, node.target, cur, new, env)
                return
            if isinstance(cur, (SSeries, SFrame)) and self.ctx.frozen:
                for o in (cur, getattr(cur, "shares", None)):
                    if o is not None and id(o) in self.ctx.frozen:
                        self.ctx.mutated.append((o, "in-place operator"))
            self.assign(node.target, new, env)
        elif isinstance(node.target, ast.Attribute):
            obj = self.eval(node.target.value, env)
            cur = self.getattr(obj, node.target.attr)
            v = self.eval(node.value, env)
            self.setattr(obj, node.target.attr, self.binop(node.op.__class__.__name__, cur, v))
        elif isinstance(node.target, ast.Subscript):
            obj = self.eval(node.target.value, env)
            idx = self.eval_index(node.target.slice, env)
            cur = self.getitem(obj, idx)
            v = self.eval(node.value, env)
            self.setitem(obj, idx, self.binop(node.op.__class__.__name__, cur, v), env, node.target)
        else:
            raise Undecided("augassign target")

    def assign(self, target, v, env):
        if isinstance(target, ast.Name):
            env.vars[target.id] = v
        elif isinstance(target, (ast.Tuple, ast.List)):
            items = self.unpack(v, len(target.elts))
            for t, it in zip(target.elts, items):
                self.assign(t, it, env)
        elif isinstance(target, ast.Attribute):
            obj = self.eval(target.value, env)
            self.setattr(obj, target.attr, v)
        elif isinstance(target, ast.Subscript):
            obj = self.eval(target.value, env)
            idx = self.eval_index(target.slice, env)
            self.setitem(obj, idx, v, env, target)
        else:
            raise Undecided(f"assignment target {target.__class__.__name__}")

    def unpack(self, v, n):
        if isinstance(v, SList):
            if len(v.items) != n:
                raise exc("ValueError")
            return v.items
        items = self.iter_concrete(v)
        if len(items) != n:
            raise exc("ValueError")
        return items

    def setitem(self, obj, idx, v, env, target):
        if isinstance(obj, SList) and obj.kind == "list":
            if is_sym(idx):
                raise Undecided("symbolic index store into list")
            if self.ctx.frozen and id(obj) in self.ctx.frozen:
                self.ctx.mutated.append((obj, "[]"))
            try:
                obj.items[idx] = v
            except IndexError:
                raise exc("IndexError")
            return
        if isinstance(obj, SDict):
            if self.ctx.frozen and id(obj) in self.ctx.frozen:
                self.ctx.mutated.append((obj, "[]"))
            obj.items[self.hashable(idx)] = v
            return
        self.lib.setitem(self, obj, idx, v, env, target)

    def x_Return(self, node, env):
        raise ReturnSig(self.eval(node.value, env) if node.value is not None else None)

    def x_If(self, node, env):
        c = self.eval(node.test, env)
        if self.truth(c, f"if@{node.lineno}"):
            self.exec_block(node.body, env)
        else:
            self.exec_block(node.orelse, env)

    def x_Raise(self, node, env):
        if node.exc is None:
            if getattr(env, "handling", None) is not None:
                raise env.handling
            raise Undecided("bare raise outside handler")
        v = self.eval(node.exc, env)
        raise SymRaise(self.make_exc(v), where=f"line {node.lineno}")

    def make_exc(self, v):
        if isinstance(v, ExcVal):
            return v
        if isinstance(v, (ClassVal, ExtClass)):
            return ExcVal(v, ())
        if isinstance(v, LibRef):
            return ExcVal(ExtClass(v.path), ())
        if isinstance(v, SObj):
            return ExcVal(v.cls, ())
        raise Undecided(f"raise of {v!r}")

    def x_Assert(self, node, env):
        c = self.eval(node.test, env)
        if not self.truth(c, f"assert@{node.lineno}"):
            raise SymRaise(ExcVal(ExtClass("builtins.AssertionError"), ()), where=f"line {node.lineno}")

    def x_Import(self, node, env):
        for a in node.names:
            target = a.name if a.asname else a.name.split(".")[0]
            env.vars[a.asname or a.name.split(".")[0]] = self.import_module(target)

    def x_ImportFrom(self, node, env):
        for a in node.names:
            env.vars[a.asname or a.name] = self.import_from(env.module, node.module, a.name, node.level)

    def x_FunctionDef(self, node, env):
        env.vars[node.name] = self.make_func(node, env.module, env, env.func.cls if env.func else None)

    def x_Global(self, node, env):
        raise Undecided("global statement")

    def x_Delete(self, node, env):
        for t in node.targets:
            if isinstance(t, ast.Name):
                env.vars.pop(t.id, None)
            else:
                raise Undecided("del of non-name")

    def x_Break(self, node, env):
        raise BreakSig()

    def x_Continue(self, node, env):
        raise ContinueSig()

    def x_With(self, node, env):
        if len(node.items) != 1:
            raise Undecided("with: several items")
        item = node.items[0]
        cm = self.eval(item.context_expr, env)
        self.lib.with_stmt(self, cm, item, node, env)

    def x_Try(self, node, env):
        try:
            try:
                self.exec_block(node.body, env)
            except SymRaise as e:
                names = exc_class_names(e.exc.cls)
                for h in node.handlers:
                    if h.type is None:
                        match = True
                    else:
                        t = self.eval(h.type, env)
                        ts = t.items if isinstance(t, SList) else [t]
                        match = any(self.as_class(x).name in names for x in ts)
                    if match:
                        if h.name:
                            env.vars[h.name] = e.exc
                        old = getattr(env, "handling", None)
                        env.handling = e
                        try:
                            self.exec_block(h.body, env)
                        finally:
                            env.handling = old
                        break
                else:
                    raise
            else:
                self.exec_block(node.orelse, env)
        finally:
            # NB: runs for SymRaise / ReturnSig / PathEnd alike; PathEnd / Undecided abort anyway
            import sys
            et = sys.exc_info()[0]
            if et is None or issubclass(et, (SymRaise, ReturnSig, BreakSig, ContinueSig)):
                self.exec_block(node.finalbody, env)

    def x_While(self, node, env):
        self.lib_loops.exec_while(self, node, env)

    def x_For(self, node, env):
        self.lib_loops.exec_for(self, node, env)

    # =========================================================== yields =================
    def do_yield(self, v, env, node):
        e = env
        while e is not None and e.collector is None:
            e = e.parent if e.func is env.func else None
        col = env.collector
        if col is None:
            raise Undecided("yield outside generator frame")
        if col == "root":
            self.root_yield(v, env, node)
        else:
            col.append(v)

    def root_yield(self, v, env, node):
        ctr = self.root_contract
        k = self.ctx.ycount
        if ctr is not None and ctr.yields_item is not None:
            expect = ctr.yields_item(self.root_args, k)
            from .spec import prove_equiv
            self.ctx.nyield_sites += 1
            prove_equiv(self, f"yield@L{node.lineno}", "yield", v, expect)
        if self.ctx.yields is not None:
            self.ctx.yields.append(v)
        self.ctx.ycount = simp(self.ctx.ycount + 1) if is_sym(self.ctx.ycount) else self.ctx.ycount + 1

    # =========================================================== calls ==================
    def call(self, f, args, kwargs):
        if isinstance(f, BoundMethod):
            return self.call_function(f.func, [f.self_obj] + list(args), kwargs)
        if isinstance(f, FuncVal):
            return self.call_function(f, list(args), kwargs)
        if isinstance(f, ClassVal):
            return self.instantiate(f, args, kwargs)
        if isinstance(f, LibRef):
            return self.lib.call(self, f.path, args, kwargs)
        if isinstance(f, ExtClass):
            if f.path.startswith("builtins.") and f.name in BUILTIN_EXC_BASES:
                return ExcVal(f, tuple(args))
            return self.lib.call(self, f.path, args, kwargs)
        if isinstance(f, LibMethod):
            return self.lib.call_method(self, f.recv, f.name, args, kwargs)
        if isinstance(f, SObj):
            c, m = self.class_lookup(f.cls, "__call__")
            if c is None:
                raise exc("TypeError")
            return self.call(self.bind(m, f, None), args, kwargs)
        if isinstance(f, AbstractObj):
            return self.lib.call_abstract(self, f, "__call__", args, kwargs)
        if isinstance(f, SuperProxy):
            raise exc("TypeError")
        if isinstance(f, Opaque) and getattr(f, "is_parallel", False):
            if isinstance(args[0], SArr) and args[0].ndim == 1 and is_sym(args[0].len):
                # tasks over a sequence of symbolic length (element-wise closure): the list of results, in submission order
                return args[0].with_kind("list")
            return SList(self.iter_concrete(args[0]), "list")
        if callable(f) and getattr(f, "_pyvc_native", False):
            return f(self, args, kwargs)
        raise Undecided(f"call of {f!r}")

    def instantiate(self, cls, args, kwargs):
        # exception classes defined in the repo
        names = exc_class_names(cls)
        if "BaseException" in names or "Exception" in names:
            return ExcVal(cls, tuple(args))
        c, m = self.class_lookup(cls, "__new__")
        if c is not None and isinstance(m, FuncVal):
            obj = self.call_function(m, [cls] + list(args), kwargs)
        else:
            obj = SObj(cls)
        if isinstance(obj, SObj) and obj.cls is cls:
            c, m = self.class_lookup(cls, "__init__")
            if c is not None and isinstance(m, FuncVal):
                self.call_function(m, [obj] + list(args), kwargs)
            elif c is not None:
                self.lib.call_method(self, obj, "__init__", args, kwargs)
            elif args or kwargs:
                raise exc("TypeError")
        return obj

    def contract_key(self, fv):
        return f"{fv.module.path}::{fv.qualname}"

    def bind_args(self, fv, args, kwargs, env):
        a = fv.node.args
        params = [p.arg for p in a.posonlyargs + a.args]
        defaults = a.defaults
        nd = len(defaults)
        values = {}
        args = list(args)
        if len(args) > len(params) and a.vararg is None:
            raise exc("TypeError")
        for p, v in zip(params, args):
            values[p] = v
        extra = args[len(params):]
        kw = dict(kwargs)
        for i, p in enumerate(params):
            if p in values:
                if p in kw:
                    raise exc("TypeError")
                continue
            if p in kw:
                values[p] = kw.pop(p)
            else:
                di = i - (len(params) - nd)
                if di >= 0:
                    values[p] = self.eval(defaults[di], Env(fv.module))
                else:
                    raise SymRaise(ExcVal(ExtClass("builtins.TypeError"), (f"missing argument {p}",)),
                                   where=f"call {fv.qualname}")
        for p, d in zip(a.kwonlyargs, a.kw_defaults):
            if p.arg in kw:
                values[p.arg] = kw.pop(p.arg)
            elif d is not None:
                values[p.arg] = self.eval(d, Env(fv.module))
            else:
                raise exc("TypeError")
        if a.vararg is not None:
            if a.vararg.arg in kw and not extra and isinstance(kw[a.vararg.arg], SList):
                values[a.vararg.arg] = kw.pop(a.vararg.arg)      # (verification harness passes *args by name)
            else:
                values[a.vararg.arg] = SList(extra, "tuple")
        if a.kwarg is not None:
            if a.kwarg.arg in kw and isinstance(kw[a.kwarg.arg], SDict) and len(kw) == 1:
                values[a.kwarg.arg] = kw.pop(a.kwarg.arg)      # (verification harness passes **kwargs by name)
            else:
                values[a.kwarg.arg] = SDict(kw)
        elif kw:
            raise SymRaise(ExcVal(ExtClass("builtins.TypeError"), (f"unexpected keyword {sorted(kw)}",)),
                           where=f"call {fv.qualname}")
        return values

    def _applicable(self, ctr, values):
        if ctr.applicable is None:
            return True
        from .spec import NS
        try:
            return bool(ctr.applicable(NS(values)))
        except Exception:
            return False

    def is_generator(self, fv):
        r = getattr(fv, "_isgen", None)
        if r is None:
            r = False
            if not isinstance(fv.node, ast.Lambda):
                for n in self._walk_own(fv.node):
                    if isinstance(n, (ast.Yield, ast.YieldFrom)):
                        r = True
                        break
            fv._isgen = r
        return r

    def _walk_own(self, fnode):
        stack = list(fnode.body)
        while stack:
            n = stack.pop()
            yield n
            for c in ast.iter_child_nodes(n):
                if isinstance(c, (ast.FunctionDef, ast.Lambda, ast.ClassDef)):
                    continue
                stack.append(c)

    def call_function(self, fv, args, kwargs, as_root=False):
        key = self.contract_key(fv) if not isinstance(fv.node, ast.Lambda) else None
        if key and fv.cls is not None and args and isinstance(args[0], SObj) and fv.kind == "function":
            # dynamic dispatch: a contract stated for the receiver's (sub)class takes precedence
            for c in self.mro(args[0].cls):
                if isinstance(c, ClassVal):
                    k2 = f"{c.module.path}::{c.name}.{fv.name}"
                    if k2 in self.contracts:
                        key = k2
                        break
                if c is fv.cls:
                    break
        env = Env(fv.module, fv, fv.closure)
        values = self.bind_args(fv, args, kwargs, env)
        if key and not as_root and self.modular and key in self.contracts and key != self.root:
            ctr = self.contracts[key]
            if ctr.usable_modularly and (ctr.returns is not None or ctr.result is not None or ctr.yields_item is not None
                                         or not ctr.ensures) and self._applicable(ctr, values):
                from .spec import apply_contract
                self.used_contracts.add(key)
                return apply_contract(self, ctr, fv, values)
        if key and not as_root:
            self.inlined.add(key)
        self.depth += 1
        if self.depth > self.max_depth:
            raise Undecided("call depth exceeded (recursion?)")
        self.ctx.frames.append(fv.qualname)
        try:
            env.vars.update(values)
            env.entry = dict(values)
            if isinstance(fv.node, ast.Lambda):
                return self.eval(fv.node.body, env)
            if self.is_generator(fv):
                if as_root:
                    env.collector = "root"
                else:
                    if fv.kind == "contextmanager":
                        return ("ctxmgr", fv, env)
                    env.collector = []
                try:
                    self.exec_block(fv.node.body, env)
                except ReturnSig:
                    pass
                if as_root:
                    return None
                return GenVal(len(env.collector), None, env.collector)
            try:
                self.exec_block(fv.node.body, env)
            except ReturnSig as r:
                return r.value
            return None
        finally:
            self.depth -= 1
            self.ctx.frames.pop()
