"""Value domain of the symbolic interpreter.

Scalars are plain Python values when concrete (int, bool, float/Fraction, str, None) and z3
terms when symbolic (Int sort = Python/numpy integer, Real sort = float, Bool sort = bool).
Everything else is one of the classes below.
"""
import itertools
from fractions import Fraction

import z3

_ids = itertools.count(1)


def is_sym(v):
    return isinstance(v, z3.ExprRef)


def is_symint(v):
    return isinstance(v, z3.ArithRef) and v.is_int()


def is_symreal(v):
    return isinstance(v, z3.ArithRef) and v.is_real()


def is_symbool(v):
    return isinstance(v, z3.BoolRef)


def is_intlike(v):
    """int (not bool) concrete or symbolic"""
    return (isinstance(v, int) and not isinstance(v, bool)) or is_symint(v)


def is_boollike(v):
    return isinstance(v, bool) or is_symbool(v)


def is_reallike(v):
    return isinstance(v, (float, Fraction)) or is_symreal(v)


def is_numlike(v):
    return is_intlike(v) or is_reallike(v) or is_boollike(v)


def to_z3(v):
    """scalar -> z3 term"""
    if isinstance(v, z3.ExprRef):
        return v
    if isinstance(v, bool):
        return z3.BoolVal(v)
    if isinstance(v, int):
        return z3.IntVal(v)
    if isinstance(v, Fraction):
        return z3.RealVal(v)
    if isinstance(v, float):
        return z3.RealVal(Fraction(v))
    if isinstance(v, NaNType):
        return NAN_CONST
    raise TypeError(f"not a scalar: {v!r}")


def to_int_term(v):
    """bool -> 0/1 int term as Python does in arithmetic"""
    if isinstance(v, bool):
        return int(v)
    if is_symbool(v):
        return z3.If(v, z3.IntVal(1), z3.IntVal(0))
    return v


class NaNType:
    _inst = None

    def __new__(cls):
        if cls._inst is None:
            cls._inst = object.__new__(cls)
        return cls._inst

    def __repr__(self):
        return "nan"


NAN = NaNType()
NAN_CONST = z3.Real("NaN")       # NaN inside symbolic real arrays: a distinguished constant with isnan(NaN)


class SArr:
    """Homogeneous n-d array / index / list of symbolic length.

    shape : tuple of int terms;  fn(*idx) -> scalar value (z3 term or Python scalar)
    dtype : 'int' | 'real' | 'bool' | 'obj'
    kind  : 'ndarray' | 'Int64Index' | 'RangeIndex' | 'Index' | 'list' | 'tuple' | 'range'
    closed: optional (start, step) when the content is start + i*step  (1-d only)
    """

    def __init__(self, shape, fn, dtype="int", kind="ndarray", closed=None, name=None):
        self.shape = tuple(shape)
        self.fn = fn
        self.dtype = dtype
        self.kind = kind
        self.closed = closed
        self.name = name
        self.id = next(_ids)

    @property
    def ndim(self):
        return len(self.shape)

    @property
    def len(self):
        return self.shape[0]

    def at(self, *idx):
        return self.fn(*idx)

    def with_kind(self, kind):
        return SArr(self.shape, self.fn, self.dtype, kind, self.closed, self.name)

    def __repr__(self):
        return f"<SArr {self.kind} {self.dtype} shape={self.shape} {self.name or ''}>"


class SList:
    """Concrete-length heterogeneous list / tuple (mutable when kind == 'list')."""

    def __init__(self, items, kind="list"):
        self.items = list(items)
        self.kind = kind
        self.id = next(_ids)

    def __repr__(self):
        return f"<S{self.kind} {self.items!r}>"


class SDict:
    def __init__(self, items=None):
        self.items = dict(items or {})   # concrete (hashable python) keys only
        self.id = next(_ids)

    def __repr__(self):
        return f"<SDict {self.items!r}>"


class SSeries:
    """pd.Series: index (1-d SArr of labels) + values (1-d SArr)."""

    def __init__(self, index, values, name=None):
        self.index = index
        self.values = values
        self.name = name
        self.id = next(_ids)

    def __repr__(self):
        return f"<SSeries len={self.index.len}>"


class SFrame:
    """pd.DataFrame: index (1-d SArr), ncols (int term), values 2-d SArr (rows x cols)."""

    def __init__(self, index, values, columns=None):
        self.index = index
        self.values = values
        self.columns = columns
        self.id = next(_ids)

    def __repr__(self):
        return f"<SFrame rows={self.index.len}>"


class ClassVal:
    def __init__(self, name, module, node, bases):
        self.name = name
        self.module = module
        self.node = node
        self.bases = bases        # list of ClassVal / ExtClass
        self.members = {}         # name -> value (FuncVal, constants ...)
        self.mro = None

    def __repr__(self):
        return f"<class {self.name}>"


class ExtClass:
    """A class from outside the repo (builtin / numpy / pandas / sklearn ...)."""

    def __init__(self, path, bases=()):
        self.path = path
        self.name = path.split(".")[-1]
        self.bases = list(bases)
        self.mro = None
        self.members = {}

    def __repr__(self):
        return f"<extclass {self.path}>"

    def __eq__(self, o):
        return isinstance(o, ExtClass) and o.path == self.path

    def __hash__(self):
        return hash(self.path)


class FuncVal:
    def __init__(self, node, module, closure=None, cls=None, kind="function"):
        self.node = node
        self.module = module
        self.closure = closure    # enclosing env (dict) for nested functions
        self.cls = cls            # defining class (for super())
        self.kind = kind          # function | staticmethod | classmethod | property
        self.name = node.name if hasattr(node, "name") else "<lambda>"

    @property
    def qualname(self):
        return (self.cls.name + "." if self.cls else "") + self.name

    def __repr__(self):
        return f"<func {self.qualname}>"


class BoundMethod:
    def __init__(self, func, self_obj):
        self.func = func
        self.self_obj = self_obj

    def __repr__(self):
        return f"<bound {self.func!r} of {self.self_obj!r}>"


class LibRef:
    """A name in a library namespace, e.g. LibRef('numpy.arange')."""

    def __init__(self, path):
        self.path = path

    def __repr__(self):
        return f"<lib {self.path}>"

    def __eq__(self, o):
        return isinstance(o, LibRef) and o.path == self.path

    def __hash__(self):
        return hash(("LibRef", self.path))


class LibMethod:
    """method of a modelled value, e.g. arr.max"""

    def __init__(self, recv, name):
        self.recv = recv
        self.name = name

    def __repr__(self):
        return f"<libmethod {self.name} of {self.recv!r}>"


class SObj:
    """Heap object of a repo class (attrs is the instance dict)."""

    def __init__(self, cls, attrs=None, tag=None):
        self.cls = cls
        self.attrs = dict(attrs or {})
        self.tag = tag
        self.id = next(_ids)

    def __repr__(self):
        return f"<obj {self.cls.name}#{self.id}{' ' + self.tag if self.tag else ''}>"


class AbstractObj:
    """Object of unknown class honouring an interface; method calls are recorded in the
    ghost trace and return fresh values (see Interp.call_abstract)."""

    def __init__(self, tag, isa=(), attrs=None, methods=None):
        self.tag = tag
        self.isa = set(isa)         # class names it is an instance of
        self.attrs = dict(attrs or {})
        self.methods = dict(methods or {})   # name -> python callable(interp, self, args, kwargs)
        self.id = next(_ids)
        self.gen = 0                # bumped on every state-changing call (fit/update)

    def __repr__(self):
        return f"<abstract {self.tag}#{self.id}>"


class Opaque:
    """Value we know nothing about except identity and (optionally) provenance."""

    def __init__(self, tag, prov=None):
        self.tag = tag
        self.prov = prov
        self.id = next(_ids)

    def __repr__(self):
        return f"<opaque {self.tag}#{self.id}>"


class ExcVal:
    def __init__(self, cls, args=()):
        self.cls = cls      # ClassVal or ExtClass
        self.args = args

    @property
    def name(self):
        return self.cls.name

    def __repr__(self):
        return f"<exc {self.name}>"


class SStr:
    """Opaque formatted string (f-string with symbolic parts): injective tuple of parts."""

    def __init__(self, parts):
        self.parts = tuple(parts)

    def __repr__(self):
        return f"<fstr {self.parts!r}>"


class GenVal:
    """Result of calling a generator function: the (possibly symbolic-length) sequence of the
    values it yields."""

    def __init__(self, count, item, items=None):
        self.count = count        # int term
        self.item = item          # k -> value
        self.items = items        # concrete python list when fully unrolled


class SSlice:
    def __init__(self, lo, hi, step):
        self.lo, self.hi, self.step = lo, hi, step
