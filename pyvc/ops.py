"""Scalar and array operations shared by the interpreter, the library models and the specs."""
import operator
from fractions import Fraction

import z3

from .ctx import SymRaise, Undecided
from .values import (NAN, ExcVal, ExtClass, SArr, SList, is_boollike, is_intlike, is_reallike,
                     is_sym, is_symbool, is_symint, is_symreal, to_int_term, to_z3)

BUILTIN_EXC = {}


def exc(name, *args):
    return SymRaise(ExcVal(ExtClass("builtins." + name), args))


def And(*xs):
    xs = [x for x in xs if not (isinstance(x, bool) and x)]
    if any(isinstance(x, bool) and not x for x in xs):
        return False
    if not xs:
        return True
    if len(xs) == 1:
        return xs[0]
    return z3.And(*[to_z3(x) for x in xs])


def Or(*xs):
    xs = [x for x in xs if not (isinstance(x, bool) and not x)]
    if any(isinstance(x, bool) and x for x in xs):
        return True
    if not xs:
        return False
    if len(xs) == 1:
        return xs[0]
    return z3.Or(*[to_z3(x) for x in xs])


def Not(x):
    if isinstance(x, bool):
        return not x
    return z3.Not(x)


def Implies(a, b):
    if isinstance(a, bool):
        return b if a else True
    if isinstance(b, bool):
        return True if b else Not(a)
    return z3.Implies(a, b)


def If(c, a, b):
    if isinstance(c, bool):
        return a if c else b
    a2, b2 = to_z3(as_real(a) if b is NAN else a), to_z3(as_real(b) if a is NAN else b)
    if a2.sort() != b2.sort():
        if a2.sort() == z3.IntSort() and b2.sort() == z3.RealSort():
            a2 = z3.ToReal(a2)
        elif b2.sort() == z3.IntSort() and a2.sort() == z3.RealSort():
            b2 = z3.ToReal(b2)
        elif a2.sort() == z3.BoolSort() and b2.sort() == z3.IntSort():
            a2 = z3.If(a2, 1, 0)
        elif b2.sort() == z3.BoolSort() and a2.sort() == z3.IntSort():
            b2 = z3.If(b2, 1, 0)
    return z3.If(c, a2, b2)


def Eq(a, b):
    if not is_sym(a) and not is_sym(b):
        return a == b
    a2, b2 = to_z3(to_int_term(a) if is_boollike(a) and not is_boollike(b) else a), \
        to_z3(to_int_term(b) if is_boollike(b) and not is_boollike(a) else b)
    return a2 == b2


def Max(a, b):
    if not is_sym(a) and not is_sym(b):
        return max(a, b)
    return If(to_z3(a) >= to_z3(b), a, b)


def Min(a, b):
    if not is_sym(a) and not is_sym(b):
        return min(a, b)
    return If(to_z3(a) <= to_z3(b), a, b)


def Abs(a):
    if not is_sym(a):
        return abs(a)
    return If(a >= 0, a, -a)


def simp(v):
    if is_sym(v):
        v = z3.simplify(v)
        if z3.is_int_value(v):
            return v.as_long()
        if z3.is_true(v):
            return True
        if z3.is_false(v):
            return False
        if z3.is_rational_value(v) and v.is_real():
            return Fraction(v.numerator_as_long(), v.denominator_as_long())
    return v


def as_real(v):
    if isinstance(v, bool):
        return Fraction(int(v))
    if isinstance(v, int):
        return Fraction(v)
    if isinstance(v, float):
        return Fraction(v)
    if is_symint(v):
        return z3.ToReal(v)
    if is_symbool(v):
        return z3.If(v, z3.RealVal(1), z3.RealVal(0))
    return v


_CMP = {"Lt": operator.lt, "LtE": operator.le, "Gt": operator.gt, "GtE": operator.ge}


def scalar_cmp(op, a, b):
    """op in Eq NotEq Lt LtE Gt GtE on scalar values -> bool / z3 Bool"""
    if a is NAN or b is NAN:
        return op == "NotEq"
    if op == "Eq":
        if (a is None) != (b is None):
            return False
        if isinstance(a, str) or isinstance(b, str):
            return a == b
        return Eq(a, b)
    if op == "NotEq":
        return Not(scalar_cmp("Eq", a, b))
    a, b = to_int_term(a), to_int_term(b)
    if is_reallike(a) or is_reallike(b):
        a, b = as_real(a), as_real(b)
    if not is_sym(a) and not is_sym(b):
        return _CMP[op](a, b)
    return _CMP[op](to_z3(a), to_z3(b))


def scalar_arith(ctx, op, a, b):
    """+ - * / // % ** on scalars (ints, reals, bools); ctx needed for q/r encodings."""
    if a is NAN or b is NAN:
        return NAN
    a, b = to_int_term(a), to_int_term(b)
    if op in ("Add", "Sub", "Mult"):
        if is_reallike(a) or is_reallike(b):
            a, b = as_real(a), as_real(b)
        f = {"Add": operator.add, "Sub": operator.sub, "Mult": operator.mul}[op]
        return simp(f(a, b)) if (is_sym(a) or is_sym(b)) else f(a, b)
    if op == "Div":
        a, b = as_real(a), as_real(b)
        if not is_sym(b):
            if b == 0:
                raise exc("ZeroDivisionError")
        else:
            if ctx.branch(b == 0, "div0"):
                raise exc("ZeroDivisionError")
        return simp(a / b) if (is_sym(a) or is_sym(b)) else a / b
    if op in ("FloorDiv", "Mod"):
        if is_reallike(a) or is_reallike(b):
            raise Undecided("float floor-division / modulo")
        q, r = divmod_int(ctx, a, b)
        return q if op == "FloorDiv" else r
    if op == "Pow":
        if not is_sym(a) and not is_sym(b):
            return a ** b
        if not is_sym(b) and isinstance(b, int) and 0 <= b <= 4:
            out = 1
            for _ in range(b):
                out = scalar_arith(ctx, "Mult", out, a)
            return out
        raise Undecided("symbolic power")
    raise Undecided(f"arith op {op}")


def divmod_int(ctx, a, b):
    """Python floor division and modulo on ints via explicit quotient / remainder."""
    if not is_sym(a) and not is_sym(b):
        if b == 0:
            raise exc("ZeroDivisionError")
        return divmod(a, b)
    if not is_sym(b):
        if b == 0:
            raise exc("ZeroDivisionError")
        if b > 0:
            a = to_z3(a)
            return simp(a / b), simp(a % b)       # z3 div/mod: floor semantics for b > 0
    else:
        if ctx.branch(b == 0, "div0"):
            raise exc("ZeroDivisionError")
    # one quotient/remainder pair per (dividend, divisor) on a path: code and specification share it
    memo = ctx.__dict__.setdefault("memo", {})
    key = ("divmod", str(simp(to_z3(a))), str(simp(to_z3(b))))
    if key in memo:
        return memo[key]
    q = ctx.fresh_int("q")
    r = ctx.fresh_int("r")
    # floor division / modulo are FUNCTIONS of their arguments: equal (dividend, divisor) give equal results
    hist = memo.setdefault("divmod-history", [])
    for (a2, b2, q2, r2) in hist[-8:]:
        ctx.assume(z3.Implies(z3.And(to_z3(a) == a2, to_z3(b) == b2), z3.And(q == q2, r == r2)))
    hist.append((to_z3(a), to_z3(b), q, r))
    memo[key] = (q, r)
    ctx.assume(to_z3(a) == to_z3(b) * q + r)
    if is_sym(b):
        pos = ctx.branch(b > 0, "divisor>0")
    else:
        pos = b > 0
    if pos:
        ctx.assume(z3.And(r >= 0, r < b))
    else:
        ctx.assume(z3.And(r <= 0, r > b))
    return q, r


def ceil_real(ctx, x):
    """math.ceil / np.ceil on a real term -> int term"""
    if not is_sym(x):
        import math
        return math.ceil(x)
    if is_symint(x):
        return x
    c = ctx.fresh_int("ceil")
    ctx.assume(z3.And(z3.ToReal(c) >= x, z3.ToReal(c) - 1 < x))
    # ceil(a / b) for integer a, b > 0: also state the integer form  (c-1)*b < a <= c*b  (helps the nonlinear solvers)
    try:
        if z3.is_app(x) and x.decl().kind() == z3.Z3_OP_DIV:
            num, den = x.children()
            ni = _int_of_real(num)
            di = _int_of_real(den)
            if ni is not None and di is not None and ctx.entails(di > 0):
                ctx.assume(z3.And(c * di >= ni, (c - 1) * di < ni))
    except z3.Z3Exception:
        pass
    return c


def _int_of_real(t):
    if z3.is_app(t) and t.decl().kind() == z3.Z3_OP_TO_REAL:
        return t.children()[0]
    if z3.is_rational_value(t) and t.denominator_as_long() == 1:
        return z3.IntVal(t.numerator_as_long())
    return None


def floor_real(ctx, x):
    if not is_sym(x):
        import math
        return math.floor(x)
    if is_symint(x):
        return x
    c = ctx.fresh_int("floor")
    ctx.assume(z3.And(z3.ToReal(c) <= x, z3.ToReal(c) + 1 > x))
    return c


# ------------------------------------------------------------------ arrays ----------

def arr_from_items(items, kind="ndarray", dtype=None):
    items = list(items)
    if dtype is None:
        dtype = "real" if any(is_reallike(x) or x is NAN for x in items) else \
            ("bool" if items and all(is_boollike(x) for x in items) else
             ("int" if all(is_intlike(x) or is_boollike(x) for x in items) else "obj"))
    n = len(items)

    def fn(i, items=items, dtype=dtype):
        if not is_sym(i):
            return items[i]
        if dtype == "obj":
            raise Undecided("symbolic index into object list")
        out = items[-1] if items else 0
        for j in range(n - 2, -1, -1):
            out = If(i == j, items[j], out)
        return out

    a = SArr((n,), fn, dtype, kind)
    a.items = items
    return a


def arange(start, stop, step=1, kind="ndarray"):
    """closed-form integer range; length = max(0, ceil((stop-start)/step)) for step >= 1"""
    if not is_sym(step) and step == 1:
        n = Max(0, simp(to_z3(stop) - to_z3(start)) if (is_sym(stop) or is_sym(start)) else stop - start)
    else:
        n = None
    return start, stop, step, n


def map_arr(a, f, dtype=None, kind=None, closed=None):
    fn = a.fn
    return SArr(a.shape, lambda *i: f(fn(*i)), dtype or a.dtype, kind or a.kind, closed)


def zip_arr(a, b, f, dtype=None, kind=None):
    fa, fb = a.fn, b.fn
    return SArr(a.shape, lambda *i: f(fa(*i), fb(*i)), dtype or a.dtype, kind or a.kind)


def norm_index(ctx, i, n, what="index"):
    """Python negative index normalisation with IndexError semantics."""
    if not is_sym(i) and not is_sym(n):
        if i < -n or i >= n:
            raise exc("IndexError")
        return i + n if i < 0 else i
    if not is_sym(i):
        if i < 0:
            if ctx.branch(to_z3(-i) > to_z3(n), f"{what}-oob"):
                raise exc("IndexError")
            return simp(to_z3(n) + i)
        if ctx.branch(to_z3(n) <= i, f"{what}-oob"):
            raise exc("IndexError")
        return i
    i3, n3 = to_z3(i), to_z3(n)
    if ctx.in_quant and getattr(ctx, "quant_guards", None):
        # inside a comprehension over a symbolic sequence: no path split on the element variable; in bounds for every element?
        g = z3.And(*ctx.quant_guards)
        if ctx.entails(z3.Implies(g, z3.And(i3 >= -n3, i3 < n3))):
            if ctx.entails(z3.Implies(g, i3 >= 0)):
                return i
            return simp(z3.If(i3 < 0, i3 + n3, i3))
    if ctx.branch(z3.Or(i3 < -n3, i3 >= n3), f"{what}-oob"):
        raise exc("IndexError")
    if ctx.entails(i3 >= 0):
        return i
    return simp(z3.If(i3 < 0, i3 + n3, i3))


def clamp_slice(lo, hi, n):
    """Python slice bound normalisation (step 1) -> (start, stop) with 0<=start<=stop'<=n"""
    def norm(b, default):
        if b is None:
            return default
        if not is_sym(b) and not is_sym(n):
            if b < 0:
                b = max(b + n, 0)
            return min(b, n)
        b3, n3 = to_z3(b), to_z3(n)
        return simp(z3.If(b3 < 0, z3.If(b3 + n3 < 0, 0, b3 + n3), z3.If(b3 > n3, n3, b3)))
    s = norm(lo, 0)
    e = norm(hi, n)
    return s, e


def slice_len(s, e):
    if not is_sym(s) and not is_sym(e):
        return max(0, e - s)
    return simp(z3.If(to_z3(e) - to_z3(s) > 0, to_z3(e) - to_z3(s), 0))
