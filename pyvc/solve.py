"""Discharging obligations: solver portfolio z3 (default) -> z3 tactics -> cvc5 (DESIGN 2.6)."""
import os
import sys
import subprocess
import tempfile
import time

import z3

CVC5 = "/usr/bin/cvc5"


def _has_quant(fs):
    def rec(e, seen):
        if e.get_id() in seen:
            return False
        seen.add(e.get_id())
        if z3.is_quantifier(e):
            return True
        return any(rec(c, seen) for c in e.children())
    s = set()
    return any(rec(f, s) for f in fs)


def model_to_dict(m, inputs, size_hint=8):
    out = {}
    for name, c in inputs.items():
        try:
            if isinstance(c, z3.FuncDeclRef):
                # tabulate the array on 0..size_hint-1 (1-d) / small grid
                ar = c.arity()
                if ar == 1:
                    out[name] = [str(m.eval(c(i), model_completion=True)) for i in range(size_hint)]
                elif ar == 2:
                    out[name] = [[str(m.eval(c(i, j), model_completion=True)) for j in range(min(size_hint, 6))] for i in range(min(size_hint, 6))]
                elif ar == 3:
                    out[name] = [[[str(m.eval(c(i, j, k), model_completion=True)) for k in range(4)] for j in range(3)] for i in range(4)]
            else:
                out[name] = str(m.eval(c, model_completion=True))
        except z3.Z3Exception as e:      # pragma: no cover
            out[name] = f"<{e}>"
    return out


def _symbols(e, memo):
    k = e.get_id()
    if k in memo:
        return memo[k]
    out = set()
    stack = [e]
    seen = set()
    while stack:
        x = stack.pop()
        i = x.get_id()
        if i in seen:
            continue
        seen.add(i)
        if z3.is_quantifier(x):
            stack.append(x.body())
        elif z3.is_app(x):
            d = x.decl()
            if d.kind() == z3.Z3_OP_UNINTERPRETED:
                out.add(d.name())
            stack.extend(x.children())
    memo[k] = out
    return out


def _flatten(hyps):
    """split top-level conjunctions (an assumed loop invariant is one big And): the quantifier-free conjuncts become usable
    by the fallbacks that drop or instantiate quantified hypotheses"""
    out = []
    stack = list(reversed(list(hyps)))
    while stack:
        h = stack.pop()
        if z3.is_and(h):
            stack.extend(reversed(h.children()))
        else:
            out.append(h)
    return out


def _ite_conditions(e):
    """conditions of if-then-else terms (outside quantifiers) that compare integer terms"""
    out, seen = [], set()

    def rec(x):
        i = x.get_id()
        if i in seen or z3.is_quantifier(x):
            return
        seen.add(i)
        if z3.is_app(x):
            if x.decl().kind() == z3.Z3_OP_ITE:
                c = x.arg(0)
                if z3.is_app(c) and c.num_args() == 2 and z3.is_int(c.arg(0)) and not any(c.eq(o) for o in out):
                    out.append(c)
            for ch in x.children():
                rec(ch)
    rec(e)
    return out


def _ground_int_args(fs, limit=14):
    """ground integer terms that occur as arguments of uninterpreted functions (outside quantifiers) -- the natural
    instantiation candidates for index-quantified hypotheses"""
    out, seen_ids, seen = [], set(), set()

    def rec(e):
        i = e.get_id()
        if i in seen or z3.is_quantifier(e):
            return
        seen.add(i)
        if z3.is_app(e):
            if e.decl().kind() == z3.Z3_OP_UNINTERPRETED and e.num_args() > 0:
                for a in e.children():
                    if z3.is_int(a) and a.get_id() not in seen_ids:
                        seen_ids.add(a.get_id())
                        out.append(a)
            for c in e.children():
                rec(c)
    for f in fs:
        rec(f)
    def simple(t, depth=0):
        # variables, numerals and sums / differences of those: instances at such terms stay linear
        if z3.is_int_value(t) or (z3.is_const(t) and t.decl().kind() == z3.Z3_OP_UNINTERPRETED):
            return True
        if depth < 2 and z3.is_app(t) and t.decl().kind() in (z3.Z3_OP_ADD, z3.Z3_OP_SUB, z3.Z3_OP_UMINUS, z3.Z3_OP_MUL):
            return all(simple(c, depth + 1) for c in t.children())
        return False
    out = [t for t in out if simple(t)]
    out.sort(key=lambda t: len(t.sexpr()))
    return out[:limit]


def ground_instances(hyps, neg, max_per_hyp=200):
    """quantifier-free hypotheses + instances of the universally quantified ones at the ground index terms of the
    quantifier-free part and the goal.  A SUBSET of consequences of the hypotheses: proving from it is sound."""
    qf = [h for h in hyps if not _has_quant([h])]
    terms = _ground_int_args(qf + ([neg] if not _has_quant([neg]) else []))
    extra = []
    if not terms:
        return qf
    import itertools
    for h in hyps:
        if not (z3.is_quantifier(h) and h.is_forall()):
            continue
        nv = h.num_vars()
        if any(h.var_sort(j) != z3.IntSort() for j in range(nv)):
            continue
        ts = terms if len(terms) ** nv <= max_per_hyp else terms[: max(2, int(max_per_hyp ** (1.0 / nv)))]
        for combo in itertools.product(ts, repeat=nv):
            inst = z3.substitute_vars(h.body(), *reversed(combo))
            if not _has_quant([inst]):
                extra.append(inst)
    return qf + extra


def cone_of_influence(hyps, goal, rounds):
    memo = {}
    rel = set(_symbols(goal, memo))
    chosen = [False] * len(hyps)
    for _ in range(rounds):
        added = False
        for i, h in enumerate(hyps):
            if not chosen[i]:
                sy = _symbols(h, memo)
                if sy & rel:
                    chosen[i] = True
                    added = True
        for i, h in enumerate(hyps):
            if chosen[i]:
                rel |= _symbols(h, memo)
        if not added:
            break
    return [h for i, h in enumerate(hyps) if chosen[i]]


def ground_stage(hyps, goal, neg, timeout_ms, deadline_s, t0):
    """quantifier instantiation by hand (DESIGN 12.1): -> backend string if proved, else None.
    A universally quantified goal is skolemised; the quantified hypotheses are instantiated at the simple ground index terms
    of the goal (one hypothesis, then pairs, then all); a case split on the conditions of if-then-else terms of the goal (new
    element / old elements of an updated sequence); every case must be refuted.  Only consequences of the hypotheses are
    used, so a `proved` is sound."""
    import itertools
    if z3.is_quantifier(goal) and goal.is_forall() and not _has_quant([goal.body()]):
        sks = [z3.FreshConst(goal.var_sort(j), "sk") for j in range(goal.num_vars())]
        neg = z3.Not(z3.substitute_vars(goal.body(), *reversed(sks)))
    if _has_quant([neg]):
        return None
    try:
        qf = [h for h in hyps if not _has_quant([h])]
        qs = [h for h in hyps if _has_quant([h])][:8]
        conds = _ite_conditions(neg)[:2]
        cases = [[]]
        for c in conds:
            cases = [cs + [c] for cs in cases] + [cs + [z3.Not(c)] for cs in cases]
        subsets = [[q] for q in qs] + [list(p_) for p_ in itertools.combinations(qs, 2)] + ([qs] if len(qs) > 2 else [])
        insts = {}
        deadline = time.time() + deadline_s
        for case in cases:
            done = False
            for sel in subsets:
                if time.time() > deadline:
                    return None
                key = tuple(id(q) for q in sel)
                if key not in insts:
                    insts[key] = ground_instances(qf + sel, neg)
                ts = z3.Solver()
                ts.set("timeout", timeout_ms)
                for h in insts[key]:
                    ts.add(h)
                for c in case:
                    ts.add(c)
                ts.add(neg)
                rr = ts.check()
                if os.environ.get("PYVC_TRACE"):
                    print("ground-instances", len(case), len(sel), len(insts[key]), rr, round(time.time() - t0, 1), file=sys.stderr)
                if rr == z3.unsat:
                    done = True
                    break
            if not done:
                return None
        return f"z3(ground instances of the quantified hypotheses, {len(cases)} case(s))"
    except z3.Z3Exception as e:
        if os.environ.get("PYVC_TRACE"):
            print("ground-instances error", e, file=sys.stderr)
    return None


def check(hyps, goal, inputs=None, timeout_ms=8000, use_cvc5=True, second_opinion=False):
    """-> (status, backend, seconds, model_dict|None, reason)"""
    t0 = time.time()
    if z3.is_true(z3.simplify(goal)):
        return "proved", "simplifier", time.time() - t0, None, ""
    neg = z3.Not(goal)
    hyps = _flatten(hyps)
    # fast path: prove from the hypotheses in the cone of influence of the goal (a subset: sound for `proved`)
    if len(hyps) > 12:
        for rounds in (1, 2):
            sub = cone_of_influence(hyps, goal, rounds)
            if len(sub) >= len(hyps):
                break
            fs = z3.Solver()
            fs.set("timeout", 1500)
            for h in sub:
                fs.add(h)
            fs.add(neg)
            if fs.check() == z3.unsat:
                return "proved", f"z3(cone-of-influence, {len(sub)}/{len(hyps)} hypotheses)", time.time() - t0, None, ""
    s = z3.Solver()
    s.set("timeout", min(timeout_ms, 2500))
    for h in hyps:
        s.add(h)
    s.add(neg)
    r = s.check()
    if r == z3.unknown and _has_quant(list(hyps) + [neg]):
        # cheap first round of instantiation by hand (short per-attempt budget); the long round comes after the other solvers
        be = ground_stage(hyps, goal, neg, 2000, 20.0, t0)
        if be:
            return "proved", be, time.time() - t0, None, ""
    if r == z3.unknown and use_cvc5 and _has_quant(list(hyps) + [neg]):
        r2 = run_cvc5(s, min(timeout_ms, 6000))
        if r2 == "unsat":
            return "proved", "cvc5", time.time() - t0, None, ""
        use_cvc5 = False
    if r == z3.unknown:
        s.set("timeout", timeout_ms)
        r = s.check()
    if r == z3.unsat:
        st = ("proved", "z3", time.time() - t0, None, "")
        if second_opinion and use_cvc5:
            r2 = run_cvc5(s, timeout_ms)
            if r2 == "sat":
                return "disagree", "z3/cvc5", time.time() - t0, None, "z3 unsat, cvc5 sat"
            st = ("proved", "z3" + ("+cvc5" if r2 == "unsat" else ""), time.time() - t0, None, "")
        return st
    if r == z3.sat:
        return "refuted", "z3", time.time() - t0, model_to_dict(s.model(), inputs or {}), ""
    reason = s.reason_unknown()
    quant = _has_quant(list(hyps) + [neg])
    # tactic solvers for quantifier-free nonlinear arithmetic
    if not quant:
        for tac in ("qfnia", "qfnra-nlsat"):
            try:
                ts = z3.Tactic(tac).solver()
                ts.set("timeout", timeout_ms)
                for h in hyps:
                    ts.add(h)
                ts.add(neg)
                r = ts.check()
            except z3.Z3Exception:
                continue
            if r == z3.unsat:
                return "proved", "z3-" + tac, time.time() - t0, None, ""
            if r == z3.sat:
                return "refuted", "z3-" + tac, time.time() - t0, model_to_dict(ts.model(), inputs or {}), ""
    if quant:
        be = ground_stage(hyps, goal, neg, timeout_ms, 5.0 * timeout_ms / 1000.0, t0)
        if be:
            return "proved", be, time.time() - t0, None, ""
    if quant:
        # proving from FEWER hypotheses is sound: drop the quantified ones and use the nonlinear tactics
        qf = [h for h in hyps if not _has_quant([h])]
        if not _has_quant([neg]):
            for tac in ("qfnia", "default"):
                try:
                    ts = z3.Tactic(tac).solver() if tac != "default" else z3.Solver()
                    ts.set("timeout", timeout_ms)
                    for h in qf:
                        ts.add(h)
                    ts.add(neg)
                    if ts.check() == z3.unsat:
                        return "proved", f"z3-{tac}(quantifier-free hypotheses only)", time.time() - t0, None, ""
                except z3.Z3Exception:
                    continue
    if use_cvc5:
        r2 = run_cvc5(s, timeout_ms)
        if r2 == "unsat":
            return "proved", "cvc5", time.time() - t0, None, ""
        if r2 == "sat":
            return "refuted", "cvc5", time.time() - t0, None, "cvc5 sat (no model extracted)"
    dump = os.environ.get("PYVC_DUMP")
    if dump:
        os.makedirs(dump, exist_ok=True)
        open(os.path.join(dump, f"unknown_{os.getpid()}_{int(time.time() * 1000) % 10 ** 8}.smt2"), "w").write(s.sexpr() + "\n(check-sat)\n")
    return "unknown", "portfolio", time.time() - t0, None, reason


def run_cvc5(solver, timeout_ms):
    if not os.path.exists(CVC5):
        return "unknown"
    txt = solver.to_smt2()
    txt = txt.replace("(set-info :status unknown)", "")
    fd, path = tempfile.mkstemp(suffix=".smt2", prefix="pyvc_")
    try:
        with os.fdopen(fd, "w") as f:
            f.write("(set-logic ALL)\n" + txt)
        try:
            p = subprocess.run([CVC5, f"--tlimit={timeout_ms}", "--nl-ext-tplanes", "--full-saturate-quant", path],
                               capture_output=True, text=True, timeout=timeout_ms / 1000 + 5)
        except subprocess.TimeoutExpired:
            return "unknown"
        out = p.stdout.strip().splitlines()
        if out and out[0] in ("sat", "unsat"):
            return out[0]
        return "unknown"
    finally:
        try:
            os.unlink(path)
        except OSError:
            pass


# ---------------------------------------------------------------------------------------------
# Candidate counterexamples for obligations the portfolio left `unknown`: quantifiers are
# instantiated over a small index set and all input sizes are bounded, which gives a
# quantifier-free query.  A model of it is only a CANDIDATE (the instantiation is incomplete):
# it counts for nothing unless the native replay reproduces a failure on the real code.

class TooBig(Exception):
    pass


def finitize(e, idxs, cache=None, budget=None):
    cache = {} if cache is None else cache
    budget = budget if budget is not None else cache.setdefault("__budget__", [60000])
    k = e.get_id()
    if k in cache:
        return cache[k][1]
    budget[0] -= 1
    if budget[0] < 0:
        raise TooBig()
    if z3.is_quantifier(e):
        nv = e.num_vars()
        body = e.body()
        import itertools
        insts = []
        for combo in itertools.product(idxs, repeat=nv):
            # de Bruijn: variable 0 is the LAST bound variable
            terms = [z3.IntVal(c) for c in reversed(combo)]
            inst = z3.substitute_vars(body, *terms)
            insts.append(finitize(inst, idxs, cache))
        r = z3.And(*insts) if e.is_forall() else z3.Or(*insts)
    elif z3.is_app(e) and e.num_args() > 0:
        ch = [finitize(c, idxs, cache) for c in e.children()]
        kd = e.decl().kind()
        # n-ary applications cannot be rebuilt through the (binary) declaration
        if kd == z3.Z3_OP_AND:
            r = z3.And(*ch)
        elif kd == z3.Z3_OP_OR:
            r = z3.Or(*ch)
        elif kd == z3.Z3_OP_ADD:
            r = z3.Sum(*ch)
        elif kd == z3.Z3_OP_MUL:
            r = z3.Product(*ch)
        elif kd == z3.Z3_OP_DISTINCT:
            r = z3.Distinct(*ch)
        else:
            r = e.decl()(*ch)
    else:
        r = e
    cache[k] = (e, r)     # keeps `e` alive: z3 reuses the ids of freed terms, a stale entry would have the wrong sort
    return r


def candidate(hyps, goal, inputs, bound=4, timeout_ms=8000):
    idxs = list(range(-1, bound + 1))
    s = z3.Solver()
    s.set("timeout", timeout_ms)
    cache = {}
    try:
        for h in hyps:
            s.add(finitize(h, idxs, cache))
        s.add(finitize(z3.Not(goal), idxs, cache))
    except (z3.Z3Exception, TooBig):
        return None
    for name, c in (inputs or {}).items():
        if isinstance(c, z3.ArithRef) and c.is_int() and (name.startswith("len(") or name == "n" or ".shape" in name):
            s.add(c <= bound + (4 if name == "n" else 0))
    r = s.check()
    if r == z3.sat:
        return model_to_dict(s.model(), inputs or {})
    return None
