"""for / while: concrete unrolling, or cut at a sidecar invariant for symbolic trip counts."""
import ast

import z3

from .ctx import PathEnd, SymRaise, Undecided
from .interp import BreakSig, ContinueSig, Env
from .ops import And, simp
from .spec import NS
from .values import (AbstractObj, GenVal, Opaque, SArr, SDict, SFrame, SList, SObj, SSeries,
                     is_boollike, is_intlike, is_reallike, is_sym, to_z3)


def loop_ordinal(I, env, node):
    fv = env.func
    if fv is None:
        return 0
    tab = getattr(fv, "_loops", None)
    if tab is None:
        loops = [n for n in I._walk_own(fv.node) if isinstance(n, (ast.For, ast.While))]
        loops.sort(key=lambda n: (n.lineno, n.col_offset))
        tab = {id(n): i for i, n in enumerate(loops)}
        fv._loops = tab
    return tab[id(node)]


def assigned_names(stmts):
    out = set()

    def tgt(t):
        if isinstance(t, ast.Name):
            out.add(t.id)
        elif isinstance(t, (ast.Tuple, ast.List)):
            for e in t.elts:
                tgt(e)
        elif isinstance(t, ast.Starred):
            tgt(t.value)
        elif isinstance(t, (ast.Subscript, ast.Attribute)):
            # x[i] = ..  /  x.a = ..  mutate x
            b = t.value
            while isinstance(b, (ast.Subscript, ast.Attribute)):
                b = b.value
            if isinstance(b, ast.Name):
                out.add(b.id)

    for s in stmts:
        for n in ast.walk(s):
            if isinstance(n, ast.Assign):
                for t in n.targets:
                    tgt(t)
            elif isinstance(n, (ast.AugAssign, ast.AnnAssign)):
                tgt(n.target)
            elif isinstance(n, ast.For):
                tgt(n.target)
            elif isinstance(n, ast.NamedExpr):
                tgt(n.target)
            elif isinstance(n, ast.Call) and isinstance(n.func, ast.Attribute) and \
                    n.func.attr in ("append", "extend", "insert", "pop", "update", "add", "remove", "sort") and \
                    isinstance(n.func.value, ast.Name):
                out.add(n.func.value.id)
    return out


def has_yield(stmts):
    for s in stmts:
        for n in ast.walk(s):
            if isinstance(n, (ast.Yield, ast.YieldFrom)):
                return True
    return False


def _obj_snapshot(env, skip):
    """attribute tables of the objects bound to local names that the loop head did NOT havoc"""
    snap = {}
    for name, v in env.vars.items():
        if name in skip:
            continue
        if v.__class__.__name__ in ("SObj", "AbstractObj") and isinstance(getattr(v, "attrs", None), dict):
            snap[name] = (v, dict(v.attrs))
            # one level down: components held in attributes (self.forecaster_, self.estimator_, ...)
            for k_, w in v.attrs.items():
                if w.__class__.__name__ in ("SObj", "AbstractObj") and isinstance(getattr(w, "attrs", None), dict) \
                        and all(w is not o for (o, _) in snap.values()):
                    snap[f"{name}.{k_}"] = (w, dict(w.attrs))
    return snap


def _same_val(a, b):
    if a is b:
        return True
    if is_sym(a) and is_sym(b):
        try:
            return a.eq(b)
        except Exception:
            return False
    if isinstance(a, (bool, int, str, float)) and type(a) is type(b):
        return a == b
    return False


def _check_obj_frame(env, snap, ordinal):
    """the body of a loop cut by an invariant was executed from a havoc'd state: an object the havoc did not cover must
    not be written by the body (its state after earlier iterations would be taken to be the state before the loop)"""
    for name, (o, before) in snap.items():
        after = o.attrs
        for k_ in set(before) | set(after):
            if k_ not in before or k_ not in after or not _same_val(before[k_], after[k_]):
                raise Undecided(f"loop #{ordinal} body writes attribute .{k_} of `{name}`, which is not havoc'd at the loop head "
                                f"(add a loop_havoc entry for `{name}`)")


class Retype(Exception):
    """a loop variable havoc'd as an integer (its value before the loop was one) is assigned a real in the loop body:
    the job is restarted with that variable havoc'd as a real"""


HAVOC_REAL = set()      # (function qualname, loop ordinal, variable) -> havoc as Real; filled by Retype restarts (per job process)


def havoc_like(I, name, v, key=None):
    ctx = I.ctx
    if isinstance(v, bool) or (is_sym(v) and is_boollike(v)):
        return ctx.fresh_bool(name)
    if is_intlike(v):
        if key is not None and key in HAVOC_REAL:
            return ctx.fresh_real(name)
        return ctx.fresh_int(name)
    if is_reallike(v):
        return ctx.fresh_real(name)
    if isinstance(v, SArr):
        shape = []
        for d, s in enumerate(v.shape):
            n = ctx.fresh_int(f"{name}.shape{d}")
            ctx.assume(n >= 0)
            shape.append(n)
        if v.dtype == "obj":
            raise Undecided(f"havoc of object array {name}")
        sort = {"int": z3.IntSort(), "real": z3.RealSort(), "bool": z3.BoolSort()}[v.dtype]
        f = ctx.fresh_fun(name, *([z3.IntSort()] * len(shape)), sort)
        return SArr(tuple(shape), lambda *i: f(*[to_z3(x) for x in i]), v.dtype, v.kind)
    if isinstance(v, AbstractObj):
        # same object (identity), unknown internal state after an unknown number of iterations
        v.gen += 1
        for k_, val in list(v.attrs.items()):
            if k_ in getattr(v, "stable_attrs", ("name", "greater_is_better")):
                continue
            if isinstance(val, bool) or (is_sym(val) and is_boollike(val)):
                v.attrs[k_] = ctx.fresh_bool(f"{name}.{k_}")
            else:
                v.attrs[k_] = ctx.fresh_int(f"{name}.{k_}") if is_intlike(val) else Opaque(f"{name}.{k_} (after earlier iterations)")
        return v
    if v.__class__.__name__ == "STable":
        from .libpd import STable
        n = ctx.fresh_int(name + ".nrows")
        ctx.assume(n >= 0)
        return STable(n, v.tag)
    if v is None:
        raise Undecided(f"havoc of {name} (None before the loop)")
    raise Undecided(f"havoc of {name}: {v!r}")


def _check_havoc_types(I, env, fname, ordinal, int_havoc):
    for name in int_havoc:
        v = env.vars.get(name)
        if v is not None and is_reallike(v) and not is_intlike(v):
            HAVOC_REAL.add((fname, ordinal, name))
            raise Retype(name)


def find_invariant(I, env, ordinal):
    fv = env.func
    if fv is None:
        return None, None
    if getattr(I, "root_fv", None) is fv and I.root_contract is not None:
        return I.root_contract.invariants.get(ordinal), I.root_contract
    key = I.contract_key(fv)
    ctr = I.contracts.get(key)
    if ctr is None:
        return None, None
    return ctr.invariants.get(ordinal), ctr


def state_ns(I, env, k, count, extra=None):
    d = dict(env.vars)
    d["k"] = k
    d["count"] = count
    d["ycount"] = I.ctx.ycount
    d["A"] = NS(env.entry)
    d["trace"] = I.ctx.trace
    if extra:
        d.update(extra)
    return NS(d)


def exec_for(I, node, env):
    it = I.eval(node.iter, env)
    sym = I.symbolic_iterable(it)
    if sym is None:
        items = I.iter_concrete(it)
        broke = False
        for item in items:
            I.assign(node.target, item, env)
            try:
                I.exec_block(node.body, env)
            except BreakSig:
                broke = True
                break
            except ContinueSig:
                continue
        if not broke:
            I.exec_block(node.orelse, env)
        return
    count, item = sym
    ordinal = loop_ordinal(I, env, node)
    inv, ctr = find_invariant(I, env, ordinal)
    if inv is None:
        raise Undecided(f"loop #{ordinal} of {env.func.qualname if env.func else '?'} over a sequence of "
                        f"symbolic length has no invariant")
    ctx = I.ctx
    fname = env.func.qualname
    ctx.assume(to_z3(count) >= 0)
    # --- initiation
    ctx.prove(f"inv-init:{fname}#loop{ordinal}", "inv-init", inv(state_ns(I, env, 0, count)))
    mod = assigned_names(node.body)
    yields = has_yield(node.body)
    choice = ctx.choose(2, f"loop{ordinal}")
    # --- havoc
    custom = ctr.loop_havoc.get(ordinal, {}) if ctr else {}
    int_havoc = []
    for name in sorted(mod | set(custom)):
        if name in custom:
            env.vars[name] = custom[name](I, state_ns(I, env, 0, count))
        elif name in env.vars:
            env.vars[name] = havoc_like(I, name, env.vars[name], key=(fname, ordinal, name))
            if is_intlike(env.vars[name]):
                int_havoc.append(name)
    if yields:
        ctx.ycount = ctx.fresh_int("ycount")
        ctx.assume(ctx.ycount >= 0)
        ctx.yields = None
    k = ctx.fresh_int("k")
    trace_mark = len(ctx.trace)
    old_k = getattr(ctx, "loop_k", None)
    ctx.loop_k = k
    if choice == 0:
        ctx.assume(z3.And(k >= 0, k < to_z3(count)))
        ctx.assume(inv(state_ns(I, env, k, count)))
        I.assign(node.target, item(k), env)
        snap = _obj_snapshot(env, mod | set(custom))
        try:
            I.exec_block(node.body, env)
        except ContinueSig:
            pass
        except BreakSig:
            raise Undecided("break inside a loop cut by an invariant")
        _check_obj_frame(env, snap, ordinal)
        _check_havoc_types(I, env, fname, ordinal, int_havoc)
        ctx.prove(f"inv-pres:{fname}#loop{ordinal}", "inv-pres", inv(state_ns(I, env, simp(k + 1), count)))
        if ctr is not None and ctr.events and ordinal in ctr.events:
            evs = ctx.trace[trace_mark:]
            ctx.prove(f"iter-events:{fname}#loop{ordinal}", "iter-events",
                      ctr.events[ordinal](state_ns(I, env, k, count), evs))
        raise PathEnd("loop cut (preservation path)")
    else:
        ctx.assume(k == to_z3(count))
        ctx.assume(inv(state_ns(I, env, k, count)))
        from .libmodels import Event
        ctx.trace.append(Event(None, "loop-summary", [fname, ordinal, count], {}))
        ctx.loop_k = old_k
        I.exec_block(node.orelse, env)


def exec_while(I, node, env):
    # concrete unrolling while the condition is decided by the path condition; otherwise cut
    ordinal = loop_ordinal(I, env, node)
    inv, ctr = find_invariant(I, env, ordinal)
    ctx = I.ctx
    if inv is None:
        fuel = 64
        while True:
            c = I.eval(node.test, env)
            cb = I.as_bool(c)
            if is_sym(cb):
                if ctx.entails(cb):
                    cb = True
                elif ctx.entails(z3.Not(cb)):
                    cb = False
                else:
                    raise Undecided(f"while loop #{ordinal} with symbolic condition has no invariant")
            if not cb:
                break
            fuel -= 1
            if fuel == 0:
                raise Undecided("while loop unrolled 64 times")
            try:
                I.exec_block(node.body, env)
            except BreakSig:
                return
            except ContinueSig:
                continue
        I.exec_block(node.orelse, env)
        return
    fname = env.func.qualname
    ctx.prove(f"inv-init:{fname}#loop{ordinal}", "inv-init", inv(state_ns(I, env, 0, None)))
    mod = assigned_names(node.body)
    choice = ctx.choose(2, f"loop{ordinal}")
    custom = ctr.loop_havoc.get(ordinal, {}) if ctr else {}
    int_havoc = []
    for name in sorted(mod | set(custom)):
        if name in custom:
            env.vars[name] = custom[name](I, state_ns(I, env, 0, None))
        elif name in env.vars:
            env.vars[name] = havoc_like(I, name, env.vars[name], key=(fname, ordinal, name))
            if is_intlike(env.vars[name]):
                int_havoc.append(name)
    ctx.assume(inv(state_ns(I, env, 0, None)))
    c = I.as_bool(I.eval(node.test, env))
    if choice == 0:
        ctx.assume(c)
        snap = _obj_snapshot(env, mod | set(custom))
        try:
            I.exec_block(node.body, env)
        except ContinueSig:
            pass
        except BreakSig:
            raise Undecided("break inside a loop cut by an invariant")
        _check_obj_frame(env, snap, ordinal)
        _check_havoc_types(I, env, fname, ordinal, int_havoc)
        ctx.prove(f"inv-pres:{fname}#loop{ordinal}", "inv-pres", inv(state_ns(I, env, 0, None)))
        raise PathEnd("loop cut (preservation path)")
    else:
        ctx.assume(z3.Not(to_z3(c)) if is_sym(c) else (not c))
        I.exec_block(node.orelse, env)
