"""numpy / pandas models (registered into libmodels.LIB / METHODS)."""
from fractions import Fraction

import z3

from . import ops
from .ctx import PathEnd, SymRaise, Undecided
from .libmodels import (INDEX_KINDS, Indexer, arg, arr_minmax, elementwise, lib, method, pure_arith, USED)
from .ops import And, Eq, If, Implies, Max, Min, Not, Or, exc, simp
from .values import (NAN, AbstractObj, ExcVal, ExtClass, GenVal, LibRef, Opaque, SArr, SDict, SFrame,
                     SList, SObj, SSeries, SSlice, is_boollike, is_intlike, is_numlike, is_reallike,
                     is_sym, is_symbool, is_symint, is_symreal, to_int_term, to_z3)


def _spec():
    from . import spec
    return spec


def to_arr(I, v, kind="ndarray"):
    if isinstance(v, SArr):
        return v
    if isinstance(v, SList):
        items = v.items
        if items and all(isinstance(x, (SList, SArr)) for x in items):
            rows = [to_arr(I, x) for x in items]
            n, m = len(rows), rows[0].len
            dt = "real" if any(r.dtype == "real" for r in rows) else rows[0].dtype
            return SArr((n, m), lambda i, j: _pick(rows, i, j), dt, kind)
        return ops.arr_from_items(items, kind=kind)
    if isinstance(v, SSeries):
        return v.values
    if is_numlike(v):
        return ops.arr_from_items([v], kind=kind)
    raise Undecided(f"to_arr({v!r})")


def _pick(rows, i, j):
    if not is_sym(i):
        return rows[i].fn(j)
    out = rows[-1].fn(j)
    for r in range(len(rows) - 2, -1, -1):
        out = If(i == r, rows[r].fn(j), out)
    return out


# ----------------------------------------------------------------------------- indexing ---

def getitem(I, obj, idx):
    from .libpd import series_getitem, indexer_getitem, frame_getitem
    if isinstance(obj, SArr):
        if getattr(obj, "stale", False):
            raise Undecided("array read after it was overwritten in place through a view (values not modelled)")
        return arr_getitem(I, obj, idx)
    if isinstance(obj, SSeries):
        return series_getitem(I, obj, idx)
    if isinstance(obj, Indexer):
        return indexer_getitem(I, obj, idx)
    if isinstance(obj, SFrame):
        return frame_getitem(I, obj, idx)
    if isinstance(obj, GenVal):
        raise exc("TypeError")
    if obj.__class__.__name__ == "STable":
        return obj        # a column of the table behaves like the table for astype/assignment bookkeeping
    if obj.__class__.__name__ == "_Loc":
        from .libpd import table_column
        t = obj.table
        r_, c_ = idx.items
        if isinstance(r_, SSlice):
            return table_column(I, t, c_)
        col = table_column(I, t, c_)
        n = len(t.rows)
        if isinstance(col, SSeries):
            return col.values.fn(r_)
        # object column (e.g. params): case split on the symbolic row
        if not is_sym(r_):
            return col.items[r_]
        for j in range(n):
            if I.ctx.branch(to_z3(r_) == j, f"row={j}"):
                return col.items[j]
        raise PathEnd("row index")
    if obj.__class__.__name__ == "SRow":
        return obj.items[idx]
    if isinstance(obj, Opaque) and getattr(obj, "getitem", None):
        return obj.getitem(I, obj, idx)
    if obj is None or is_numlike(obj):
        raise exc("TypeError")
    raise Undecided(f"subscript of {obj!r}")


def arr_getitem(I, a, idx):
    ctx = I.ctx
    if isinstance(idx, SList) and idx.kind == "tuple":
        return nd_getitem(I, a, idx.items)
    if a.ndim > 1:
        return nd_getitem(I, a, [idx])
    n = a.len
    if is_intlike(idx):
        i = ops.norm_index(ctx, idx, n)
        return a.fn(i)
    if isinstance(idx, SSlice):
        if idx.step is not None and not (not is_sym(idx.step) and idx.step == 1):
            if not is_sym(idx.step) and idx.step == -1 and idx.lo is None and idx.hi is None:
                return SArr((n,), lambda i: a.fn(simp(to_z3(n) - 1 - to_z3(i))), a.dtype, a.kind)
            raise Undecided("slice with step")
        s, e = ops.clamp_slice(idx.lo, idx.hi, n)
        m = ops.slice_len(s, e)
        closed = None
        if a.closed:
            closed = (pure_arith(I, "Add", a.closed[0], pure_arith(I, "Mult", s, a.closed[1])), a.closed[1])
        kind = a.kind
        return SArr((m,), lambda i: a.fn(simp(to_z3(s) + to_z3(i)) if (is_sym(s) or is_sym(i)) else s + i),
                    a.dtype, kind, closed)
    if isinstance(idx, SList):
        idx = to_arr(I, idx)
    if isinstance(idx, SSeries):
        idx = idx.values
    if isinstance(idx, SArr):
        if idx.dtype == "bool":
            return filter_arr(I, a, idx)
        if idx.dtype == "int":
            return fancy_index(I, a, idx)
    if idx is None:
        return SArr((1, n), lambda i, j: a.fn(j), a.dtype, a.kind)
    raise Undecided(f"array index {idx!r}")


def fancy_index(I, a, idx):
    ctx = I.ctx
    n = a.len
    S = _spec()
    inb = S.ForAll(lambda i: And(to_z3(idx.fn(i)) >= -to_z3(n), to_z3(idx.fn(i)) < to_z3(n)), 0, idx.len)
    if not (isinstance(inb, bool) and inb):
        if not ctx.entails(inb):
            if ctx.branch(Not(inb), "fancy-oob"):
                raise SymRaise(ExcVal(ExtClass("builtins.IndexError"), ()), where="fancy index out of bounds")

    def fn(*i):
        j = idx.fn(*i)
        if not is_sym(j):
            return a.fn(j if j >= 0 else simp(to_z3(n) + j))
        return a.fn(simp(z3.If(j < 0, j + to_z3(n), j)))
    return SArr(idx.shape, fn, a.dtype, a.kind)


def filter_arr(I, a, mask):
    """a[mask] for a boolean mask of the same length."""
    ctx = I.ctx
    S = _spec()
    n = a.len
    if not (mask.len is n) and not ctx.entails(Eq(mask.len, n)):
        raise Undecided("boolean mask of different length")
    alltrue = S.ForAll(lambda i: mask.fn(i), 0, n)
    if ctx.entails(alltrue):
        return SArr(a.shape, a.fn, a.dtype, a.kind, a.closed)
    allfalse = S.ForAll(lambda i: Not(mask.fn(i)), 0, n)
    if ctx.entails(allfalse):
        return SArr((0,), a.fn, a.dtype, a.kind, a.closed)
    USED.add("a[boolmask]: order-preserving selection (pos strictly increasing, onto the True positions); "
             "suffix-/prefix-closed masks give a contiguous block")
    m = ctx.fresh_int("nsel")
    pos = ctx.fresh_fun("selpos", z3.IntSort(), z3.IntSort())
    inv = ctx.fresh_fun("selinv", z3.IntSort(), z3.IntSort())
    n3 = to_z3(n)
    ctx.assume(z3.And(m >= 0, m <= n3))
    ctx.assume(S.ForAll(lambda j: And(pos(j) >= 0, pos(j) < n3, mask.fn(pos(j))), 0, m, "j"))
    ctx.assume(S.ForAll2(lambda j, j2: pos(j) < pos(j2), 0, m))
    ctx.assume(S.ForAll(lambda i: Implies(mask.fn(i), And(inv(i) >= 0, inv(i) < m, pos(inv(i)) == i)), 0, n, "i"))
    # derived facts (consequences of the axioms above that need induction)
    ctx.assume(Implies(alltrue, And(m == n3, S.ForAll(lambda j: pos(j) == j, 0, m, "j"))))
    ctx.assume(Implies(allfalse, m == 0))
    sufclosed = S.ForAll2(lambda i, j: Implies(mask.fn(i), mask.fn(j)), 0, n)
    preclosed = S.ForAll2(lambda i, j: Implies(mask.fn(j), mask.fn(i)), 0, n)
    ctx.assume(Implies(sufclosed, S.ForAll(lambda j: pos(j) == n3 - m + j, 0, m, "j")))
    ctx.assume(Implies(preclosed, S.ForAll(lambda j: pos(j) == j, 0, m, "j")))
    # nothing is selected before the first / after the last selected position
    ctx.assume(Implies(m > 0, S.ForAll(lambda i: Implies(to_z3(i) < pos(0), Not(mask.fn(i))), 0, n, "i")))
    ctx.assume(Implies(m > 0, S.ForAll(lambda i: Implies(to_z3(i) > pos(m - 1), Not(mask.fn(i))), 0, n, "i")))
    # convex (interval) masks select a contiguous block
    i_, j_, k_ = z3.Int(ctx.fresh_name("$ci")), z3.Int(ctx.fresh_name("$cj")), z3.Int(ctx.fresh_name("$ck"))
    ctx.in_quant += 1
    convex = z3.ForAll([i_, j_, k_], z3.Implies(z3.And(0 <= i_, i_ < j_, j_ < k_, k_ < n3, to_z3(mask.fn(i_)), to_z3(mask.fn(k_))), to_z3(mask.fn(j_))))
    ctx.in_quant -= 1
    ctx.assume(Implies(convex, S.ForAll(lambda j: pos(j) == pos(0) + j, 0, m, "j")))
    ctx.assume(Implies(sufclosed, Implies(n3 - m - 1 >= 0, Not(mask.fn(n3 - m - 1)))))
    ctx.assume(Implies(preclosed, Implies(m < n3, Not(mask.fn(m)))))
    return SArr((m,), lambda j: a.fn(pos(to_z3(j))), a.dtype, a.kind)


def nd_getitem(I, a, items):
    """basic indexing a[i, :, lo:hi] on 2-d / 3-d arrays (ints, slices, int arrays in one place)"""
    ctx = I.ctx
    items = list(items)
    if any(x is Ellipsis for x in items):
        raise Undecided("Ellipsis index")
    while len(items) < a.ndim:
        items.append(SSlice(None, None, None))
    if len(items) > a.ndim:
        raise exc("IndexError")
    plan = []       # per source dim: ('int', i) | ('slice', start, len) | ('fancy', arr)
    out_shape = []
    for d, it in enumerate(items):
        n = a.shape[d]
        if is_intlike(it):
            plan.append(("int", ops.norm_index(ctx, it, n)))
        elif isinstance(it, SSlice):
            if it.step is not None and not (not is_sym(it.step) and it.step == 1):
                raise Undecided("nd slice with step")
            s, e = ops.clamp_slice(it.lo, it.hi, n)
            m = ops.slice_len(s, e)
            plan.append(("slice", s, it.lo is None and it.hi is None))
            out_shape.append(m)
        elif isinstance(it, (SArr, SList)):
            arr = to_arr(I, it)
            if arr.dtype == "bool":
                raise Undecided("nd boolean mask")
            S = _spec()
            inb = S.ForAll(lambda i: And(to_z3(arr.fn(i)) >= -to_z3(n), to_z3(arr.fn(i)) < to_z3(n)), 0, arr.len)
            if not ctx.entails(inb):
                if ctx.branch(Not(inb), "fancy-oob"):
                    raise SymRaise(ExcVal(ExtClass("builtins.IndexError"), ()), where="fancy index out of bounds")
            plan.append(("fancy", arr, n))
            out_shape.append(arr.len)
        else:
            raise Undecided(f"nd index {it!r}")
    if not out_shape:
        return a.fn(*[p[1] for p in plan])

    def fn(*oi):
        src = []
        k = 0
        for p in plan:
            if p[0] == "int":
                src.append(p[1])
            elif p[0] == "slice":
                src.append(pure_arith(I, "Add", p[1], oi[k]))
                k += 1
            else:
                j = p[1].fn(oi[k])
                src.append(simp(z3.If(to_z3(j) < 0, to_z3(j) + to_z3(p[2]), to_z3(j))) if is_sym(j) else (j if j >= 0 else pure_arith(I, "Add", p[2], j)))
                k += 1
        return a.fn(*src)
    out = SArr(tuple(out_shape), fn, a.dtype, a.kind)
    if a.ndim == 2 and len(plan) == 2 and plan[0][0] == "int" and plan[1][0] == "slice" and plan[1][2]:
        out.row_of = (a, plan[0][1])
    if a.ndim == 2 and len(plan) == 2 and plan[0][0] == "slice" and plan[1][0] == "slice":
        # a[r0:r1, c0:c1]: remembered as a window of its base so that row aggregates are functions of (base, row, c0, c1)
        out.view_of = (a, plan[0][1], plan[1][1], pure_arith(I, "Add", plan[1][1], out_shape[1]))
    return out


def row_aggregate(ctx, name, base):
    """AGG_name_base(i, lo, hi): the aggregate `name` of base[i, lo:hi] -- a function of the cells it is given"""
    memo = ctx.__dict__.setdefault("row_aggs", {})
    key = (name, agg_key(base))
    if key not in memo:
        memo[key] = z3.Function(f"rowagg_{name}_{key[1]}", z3.IntSort(), z3.IntSort(), z3.IntSort(), z3.RealSort())
    return memo[key]


_agg_keys = iter(range(1, 10 ** 9))


def agg_key(base):
    """identity of the CONTENT an aggregate reads: fresh per array object (a store creates a new object, hence a new key);
    squeeze(1) of a (n, 1, L) array shares the key of its source (same cells)"""
    if getattr(base, "_agg_key", None) is None:
        base._agg_key = next(_agg_keys)
    return base._agg_key


def setitem(I, obj, idx, v, env, target):
    """array stores rebind the variable / attribute that holds the array (functional update)."""
    import ast
    from .libpd import indexer_store, pandas_store
    if isinstance(obj, SArr):
        new = arr_store(I, obj, idx, v)
        _rebind(I, target.value, new, env, obj)
        return
    if isinstance(obj, Indexer):
        new = indexer_store(I, obj, idx, v)
        base_expr = target.value.value      # X.iloc[...] = v  -> X
        _rebind(I, base_expr, new, env, obj.base)
        return
    if isinstance(obj, (SSeries, SFrame)):
        new = pandas_store(I, obj, idx, v)
        _rebind(I, target.value, new, env, obj)
        return
    if isinstance(obj, Opaque) and getattr(obj, "setitem", None):
        return obj.setitem(I, obj, idx, v)
    if obj.__class__.__name__ == "STable":
        # column assignment: number of rows unchanged; recorded in the ghost trace
        from .libmodels import Event
        I.ctx.trace.append(Event(obj, "table.setitem", [idx, v], {}, None, getattr(I.ctx, "loop_k", None)))
        return
    if obj.__class__.__name__ == "SRow":
        obj.items[idx] = v
        return
    if obj.__class__.__name__ == "SRowsTable":
        obj.extra[idx] = v
        return
    raise Undecided(f"subscript store into {obj!r}")


def _rebind(I, expr, new, env, old):
    import ast
    # a store through one name is visible through every alias: refuse when aliases may exist
    if I.ctx.frozen and id(old) in I.ctx.frozen:
        I.ctx.mutated.append((old, "[]="))
    sh = getattr(old, "shares", None)
    if sh is not None:
        new.shares = sh
        if I.ctx.frozen and id(sh) in I.ctx.frozen:
            I.ctx.mutated.append((sh, "[]= through a shallow copy"))
    new.id = old.id
    old_aliases = getattr(old, "aliases", None)
    if isinstance(expr, ast.Name):
        # update every local in the env chain bound to the same object
        e = env
        while e is not None:
            for k, val in list(e.vars.items()):
                if val is old:
                    e.vars[k] = new
            e = e.parent
        for ob, nm, val in list(I.ctx.writes):
            if val is old and isinstance(ob, SObj) and ob.attrs.get(nm) is old:
                ob.attrs[nm] = new
        return
    if isinstance(expr, ast.Attribute):
        o = I.eval(expr.value, env)
        if isinstance(o, (SObj, AbstractObj)):
            o.attrs[expr.attr] = new
            e = env
            while e is not None:
                for k, val in list(e.vars.items()):
                    if val is old:
                        e.vars[k] = new
                e = e.parent
            return
    raise Undecided("store into an array reached through a complex expression")


def arr_store(I, a, idx, v):
    ctx = I.ctx
    if a.ndim == 1:
        n = a.len
        if is_intlike(idx):
            i = ops.norm_index(ctx, idx, n)
            old = a.fn
            dt = "real" if (a.dtype == "real" or is_reallike(v) or v is NAN) else a.dtype
            return SArr(a.shape, lambda j: If(Eq(j, i), v, old(j)) if (is_sym(j) or is_sym(i)) else (v if j == i else old(j)), dt, a.kind)
        if isinstance(idx, SSlice):
            s, e = ops.clamp_slice(idx.lo, idx.hi, n)
            old = a.fn
            if is_numlike(v):
                return SArr(a.shape, lambda j: If(And(to_z3(j) >= to_z3(s), to_z3(j) < to_z3(e)), v, old(j)), a.dtype, a.kind)
            va = to_arr(I, v)
            return SArr(a.shape, lambda j: If(And(to_z3(j) >= to_z3(s), to_z3(j) < to_z3(e)), va.fn(simp(to_z3(j) - to_z3(s))), old(j)), a.dtype, a.kind)
        raise Undecided(f"1-d store with index {idx!r}")
    items = list(idx.items) if isinstance(idx, SList) and idx.kind == "tuple" else [idx]
    while len(items) < a.ndim:
        items.append(SSlice(None, None, None))
    conds = []     # per dim: (lo, hi) range or exact
    offs = []
    for d, it in enumerate(items):
        n = a.shape[d]
        if is_intlike(it):
            i = ops.norm_index(ctx, it, n)
            conds.append(("eq", i))
        elif isinstance(it, SSlice):
            if it.step is not None:
                raise Undecided("store slice step")
            s, e = ops.clamp_slice(it.lo, it.hi, n)
            conds.append(("rng", s, e))
        else:
            raise Undecided(f"nd store index {it!r}")
    old = a.fn
    va = None if (is_numlike(v) or v is NAN) else to_arr(I, v)
    dt = "real" if (a.dtype == "real" or is_reallike(v) or v is NAN or (va is not None and va.dtype == "real")) else a.dtype

    def fn(*j):
        cs = []
        src = []
        for c, jj in zip(conds, j):
            if c[0] == "eq":
                cs.append(Eq(jj, c[1]))
            else:
                cs.append(And(to_z3(jj) >= to_z3(c[1]), to_z3(jj) < to_z3(c[2])))
                src.append(pure_arith(I, "Sub", jj, c[1]))
        newv = v if va is None else va.fn(*src[-va.ndim:]) if va.ndim <= len(src) else None
        if va is not None and va.ndim != len(src):
            if va.ndim > len(src):
                raise Undecided("store: value rank larger than target region")
        return If(And(*cs), newv, old(*j))
    return SArr(a.shape, fn, dt, a.kind)


# ----------------------------------------------------------------------------- numpy ------

@lib("numpy.arange")
def np_arange(I, args, kwargs):
    from .libmodels import make_range
    if len(args) == 1:
        return make_range(I, 0, args[0], 1, "ndarray")
    if len(args) == 2:
        return make_range(I, args[0], args[1], arg(args, kwargs, 2, "step", 1), "ndarray")
    return make_range(I, args[0], args[1], args[2], "ndarray")


@lib("numpy.array", "numpy.asarray")
def np_array(I, args, kwargs):
    v = args[0]
    if isinstance(v, SArr):
        return v.with_kind("ndarray")
    if isinstance(v, SSeries):
        return v.values.with_kind("ndarray")
    if isinstance(v, SList):
        return to_arr(I, v)
    if is_numlike(v):
        return SArr((), lambda: v, "int" if is_intlike(v) else "real", "ndarray")
    raise Undecided(f"np.array({v!r})")


@lib("numpy.max", "numpy.amax", "numpy.nanmax")
def np_max(I, args, kwargs):
    v = args[0]
    return _np_minmax(I, v, "max", kwargs)


@lib("numpy.min", "numpy.amin", "numpy.nanmin")
def np_min(I, args, kwargs):
    return _np_minmax(I, args[0], "min", kwargs)


def _np_minmax(I, v, which, kwargs):
    if isinstance(v, SObj):
        return I.call(I.getattr(v, which), [], {})
    if is_numlike(v):
        return v
    a = to_arr(I, v)
    if kwargs.get("axis") is not None:
        raise Undecided("max along axis")
    return arr_minmax(I, a, which)


@method("arr", "max")
def arr_max(I, recv, args, kwargs):
    return arr_minmax(I, recv, "max")


@method("arr", "min")
def arr_min(I, recv, args, kwargs):
    return arr_minmax(I, recv, "min")


@lib("numpy.sort")
def np_sort(I, args, kwargs):
    return sort_arr(I, to_arr(I, args[0]))


def sort_arr(I, a):
    """sorted permutation; identity on sorted input"""
    ctx = I.ctx
    S = _spec()
    if a.ndim != 1:
        raise Undecided("sort nd")
    n = a.len
    if not is_sym(n) and n <= 1:
        return a
    if getattr(a, "_sorted", None) is not None and a._sorted[0] is ctx:
        return a._sorted[1]
    issorted = S.ForAll2(lambda i, j: ops.scalar_cmp("LtE", a.fn(i), a.fn(j)), 0, n)
    if ctx.entails(issorted):
        return a
    USED.add("sort: result is sorted, a permutation of the input (perm bijective), identity on sorted input")
    sort = z3.IntSort() if a.dtype in ("int", "bool") else z3.RealSort()
    res = ctx.fresh_fun("sorted", z3.IntSort(), sort)
    perm = ctx.fresh_fun("perm", z3.IntSort(), z3.IntSort())
    pinv = ctx.fresh_fun("perminv", z3.IntSort(), z3.IntSort())
    n3 = to_z3(n)
    ctx.assume(S.ForAll2(lambda i, j: res(i) <= res(j), 0, n))
    ctx.assume(S.ForAll(lambda i: And(perm(i) >= 0, perm(i) < n3, res(i) == to_z3(a.fn(perm(i))), pinv(perm(i)) == i), 0, n))
    ctx.assume(S.ForAll(lambda i: And(pinv(i) >= 0, pinv(i) < n3, perm(pinv(i)) == i, res(pinv(i)) == to_z3(a.fn(i))), 0, n))
    ctx.assume(Implies(issorted, S.ForAll(lambda i: res(i) == to_z3(a.fn(i)), 0, n)))
    # distinctness is preserved by a permutation: strict version
    distinct = S.ForAll2(lambda i, j: to_z3(a.fn(i)) != to_z3(a.fn(j)), 0, n)
    ctx.assume(Implies(distinct, S.ForAll2(lambda i, j: res(i) < res(j), 0, n)))
    out = SArr((n,), lambda i: res(to_z3(i)), a.dtype, a.kind)
    out.sorted_of = a
    a._sorted = (ctx, out)
    return out


@lib("numpy.issubdtype")
def np_issubdtype(I, args, kwargs):
    d, t = args
    dp = d.path if isinstance(d, (LibRef, ExtClass)) else None
    tp = t.path if isinstance(t, (LibRef, ExtClass)) else None
    from .libmodels import norm_path
    if dp is None or tp is None:
        raise Undecided("issubdtype of symbolic dtype")
    dp, tp = norm_path(dp), norm_path(tp)
    table = {"numpy.integer": {"numpy.integer"}, "builtins.float": {"builtins.float", "numpy.floating"},
             "builtins.bool": {"builtins.bool"}, "numpy.object_": {"numpy.object_"}}
    return tp in table.get(dp, {dp}) or (tp == "numpy.number" and dp in ("numpy.integer", "builtins.float"))


@lib("numpy.ceil")
def np_ceil(I, args, kwargs):
    v = args[0]
    if is_numlike(v):
        return ops.as_real(ops.ceil_real(I.ctx, ops.as_real(v))) if False else _RealInt(I, ops.ceil_real(I.ctx, ops.as_real(to_int_term(v))))
    raise Undecided("ceil of array")


@lib("numpy.floor")
def np_floor(I, args, kwargs):
    v = args[0]
    if is_numlike(v):
        return _RealInt(I, ops.floor_real(I.ctx, ops.as_real(to_int_term(v))))
    raise Undecided("floor of array")


def _RealInt(I, intterm):
    """np.ceil returns a float with integral value"""
    return ops.as_real(intterm)


@lib("math.ceil")
def math_ceil(I, args, kwargs):
    return ops.ceil_real(I.ctx, ops.as_real(to_int_term(args[0])))


@lib("math.floor")
def math_floor(I, args, kwargs):
    return ops.floor_real(I.ctx, ops.as_real(to_int_term(args[0])))


@lib("numpy.abs", "numpy.absolute")
def np_abs(I, args, kwargs):
    from .libmodels import _abs
    return _abs(I, args, kwargs)


@lib("numpy.isnan")
def np_isnan(I, args, kwargs):
    v = args[0]
    if v is NAN:
        return True
    if is_numlike(v):
        return False if not is_symreal(v) else isnan_pred(I, v)
    if isinstance(v, SArr):
        if v.dtype in ("int", "bool"):
            return ops.map_arr(v, lambda x: False, dtype="bool")
        return ops.map_arr(v, lambda x: isnan_pred(I, x), dtype="bool", kind="ndarray")
    if isinstance(v, SSeries):
        return SSeries(v.index, np_isnan(I, [v.values], {}), v.name)
    raise Undecided(f"isnan({v!r})")


_ISNAN = None


def isnan_pred(I, x):
    """NaN is modelled as an uninterpreted predicate over real terms (DESIGN 2.3)"""
    global _ISNAN
    if x is NAN:
        return True
    if not is_sym(x):
        return False
    if _ISNAN is None:
        _ISNAN = z3.Function("isnan", z3.RealSort(), z3.BoolSort())
    USED.add("NaN modelled as an uninterpreted predicate isnan(x) on real terms (plus the constant NaN)")
    from .values import NAN_CONST
    xr = ops.as_real(x)
    return z3.Or(xr == NAN_CONST, _ISNAN(xr))


@lib("numpy.all")
def np_all(I, args, kwargs):
    v = args[0]
    if is_boollike(v):
        return v
    a = to_arr(I, v)
    S = _spec()
    if a.ndim == 1:
        return S.ForAll(lambda i: I.as_bool(a.fn(i)), 0, a.len)
    raise Undecided("np.all nd")


@lib("numpy.any")
def np_any(I, args, kwargs):
    v = args[0]
    if is_boollike(v):
        return v
    a = to_arr(I, v)
    S = _spec()
    if a.ndim == 1:
        return Not(S.ForAll(lambda i: Not(I.as_bool(a.fn(i))), 0, a.len))
    raise Undecided("np.any nd")


@lib("numpy.array_equal")
def np_array_equal(I, args, kwargs):
    a, b = args
    S = _spec()
    if isinstance(a, SObj):
        a = I.call(I.getattr(a, "to_numpy"), [], {}) if I.hasattr(a, "to_numpy") else a
    if isinstance(b, SObj):
        b = I.call(I.getattr(b, "to_numpy"), [], {}) if I.hasattr(b, "to_numpy") else b
    if a is None or b is None:
        return False
    return S.equiv(to_arr(I, a), to_arr(I, b))


@lib("numpy.repeat")
def np_repeat(I, args, kwargs):
    v, reps = args[0], arg(args, kwargs, 1, "repeats")
    if is_numlike(v) or v is NAN:
        return SArr((reps,), lambda i: v, "real" if (is_reallike(v) or v is NAN) else "int", "ndarray")
    raise Undecided("np.repeat of array")


@lib("numpy.full")
def np_full(I, args, kwargs):
    shape, v = args[0], arg(args, kwargs, 1, "fill_value")
    shp = tuple(shape.items) if isinstance(shape, SList) else (shape,)
    return SArr(shp, lambda *i: v, "real" if (is_reallike(v) or v is NAN) else "int", "ndarray")


@lib("numpy.zeros", "numpy.ones", "numpy.empty")
def np_zeros(I, args, kwargs):
    shape = arg(args, kwargs, 0, "shape")
    shp = tuple(shape.items) if isinstance(shape, SList) else (shape,)
    path = I.cur_node.func.attr if hasattr(I.cur_node.func, "attr") else "zeros"
    if path == "empty":
        # uninitialised memory: arbitrary content
        f = I.ctx.fresh_fun("empty", *([z3.IntSort()] * len(shp)), z3.RealSort())
        return SArr(shp, lambda *i: f(*[to_z3(x) for x in i]), "real", "ndarray")
    val = Fraction(1) if path == "ones" else Fraction(0)
    return SArr(shp, lambda *i: val, "real", "ndarray")


@lib("numpy.hstack", "numpy.concatenate")
def np_hstack(I, args, kwargs):
    parts = [to_arr(I, p) for p in I.iter_concrete(args[0])]
    if any(p.ndim != 1 for p in parts):
        if all(p.ndim == 3 for p in parts) and kwargs.get("axis") == 2:
            return concat3_last(I, parts)
        if kwargs.get("axis") in (1, -1) or I.cur_node.func.attr == "hstack":
            return hstack2(I, parts)
        raise Undecided("concatenate nd")
    return concat1(I, parts)


def concat1(I, parts):
    total = 0
    offs = []
    for p in parts:
        offs.append(total)
        total = pure_arith(I, "Add", total, p.len)
    dt = "real" if any(p.dtype == "real" for p in parts) else parts[0].dtype

    def fn(i):
        out = parts[-1].fn(pure_arith(I, "Sub", i, offs[-1]))
        for p, o in list(zip(parts, offs))[-2::-1]:
            out = If(to_z3(i) < to_z3(pure_arith(I, "Add", o, p.len)), p.fn(pure_arith(I, "Sub", i, o)), out)
        return out
    return SArr((total,), fn, dt, "ndarray")


def concat3_last(I, parts):
    a0, a1 = parts[0].shape[0], parts[0].shape[1]
    total = 0
    offs = []
    for p in parts:
        offs.append(total)
        total = pure_arith(I, "Add", total, p.shape[2])

    def fn(i, j, k):
        out = parts[-1].fn(i, j, pure_arith(I, "Sub", k, offs[-1]))
        for p, o in list(zip(parts, offs))[-2::-1]:
            out = If(to_z3(k) < to_z3(pure_arith(I, "Add", o, p.shape[2])), p.fn(i, j, pure_arith(I, "Sub", k, o)), out)
        return out
    return SArr((a0, a1, total), fn, "real", "ndarray")


def hstack2(I, parts):
    parts = [p if p.ndim == 2 else SArr((p.len, 1), (lambda p: lambda i, j: p.fn(i))(p), p.dtype, p.kind) for p in parts]
    rows = parts[0].shape[0]
    total = 0
    offs = []
    for p in parts:
        offs.append(total)
        total = pure_arith(I, "Add", total, p.shape[1])
    dt = "real" if any(p.dtype == "real" for p in parts) else parts[0].dtype

    def fn(i, j):
        out = parts[-1].fn(i, pure_arith(I, "Sub", j, offs[-1]))
        for p, o in list(zip(parts, offs))[-2::-1]:
            out = If(to_z3(j) < to_z3(pure_arith(I, "Add", o, p.shape[1])), p.fn(i, pure_arith(I, "Sub", j, o)), out)
        return out
    return SArr((rows, total), fn, dt, "ndarray")


@lib("numpy.integer", "numpy.ndarray", "numpy.int64", "numpy.floating", "numpy.number")
def np_type_call(I, args, kwargs):
    raise Undecided("numpy type constructor")


# ----------------------------------------------------------------------------- array methods

@method("arr", "to_numpy")
def arr_to_numpy(I, recv, args, kwargs):
    return recv.with_kind("ndarray")


@method("arr", "copy")
def arr_copy(I, recv, args, kwargs):
    return SArr(recv.shape, recv.fn, recv.dtype, recv.kind, recv.closed)


@method("arr", "nunique")
def arr_nunique(I, recv, args, kwargs):
    """Index.nunique(): == len iff pairwise distinct, and 1 <= nunique <= len for non-empty"""
    ctx = I.ctx
    S = _spec()
    n = recv.len
    a = recv
    if not is_sym(n) and n <= 1:
        return n
    u = ctx.fresh_int("nunique")
    distinct = S.ForAll2(lambda i, j: to_z3(a.fn(i)) != to_z3(a.fn(j)), 0, n)
    ctx.assume(z3.And(u >= 0, u <= to_z3(n)))
    ctx.assume((u == to_z3(n)) == to_z3(distinct))
    USED.add("Index.nunique() == len  iff  elements pairwise distinct")
    return u


@method("arr", "sort_values")
def arr_sort_values(I, recv, args, kwargs):
    r = sort_arr(I, recv)
    if r.kind == "RangeIndex" and r is not recv:
        r = r.with_kind("Int64Index")
    return r


@method("arr", "tolist")
def arr_tolist(I, recv, args, kwargs):
    return recv.with_kind("list")


@method("arr", "astype")
def arr_astype(I, recv, args, kwargs):
    return recv


@method("arr", "ravel", "flatten")
def arr_ravel(I, recv, args, kwargs):
    if recv.ndim == 1:
        return recv
    if recv.ndim == 2:
        r, c = recv.shape
        if not is_sym(c) and c == 1:
            return SArr((r,), lambda i: recv.fn(i, 0), recv.dtype, recv.kind)
        if not is_sym(r) and r == 1:
            return SArr((c,), lambda i: recv.fn(0, i), recv.dtype, recv.kind)
        return SArr((_mul(I, r, c),), lambda q: recv.fn(_zdiv(q, c), _zmod(q, c)), recv.dtype, recv.kind)
    raise Undecided("ravel nd")


@method("arr", "equals")
def arr_equals(I, recv, args, kwargs):
    o = args[0]
    if not isinstance(o, SArr):
        return False
    return _spec().equiv(recv, o)


# ----------------------------------------------------------------------------- pandas Index constructors

@lib("pandas.Int64Index")
def pd_int64index(I, args, kwargs):
    v = args[0]
    if isinstance(v, SList):
        items = v.items
        for x in items:
            if is_reallike(x):
                if not is_sym(x) and Fraction(x).denominator != 1:
                    raise exc("TypeError")
                raise Undecided("Int64Index of float values")
            if not (is_intlike(x) or is_boollike(x)):
                raise exc("TypeError")
        a = ops.arr_from_items([to_int_term(x) for x in items], kind="Int64Index", dtype="int")
        return a
    if isinstance(v, SArr):
        if v.dtype == "real":
            USED.add("pd.Int64Index(float values, dtype=int) raises TypeError unless every value is integral (pandas 1.x)")
            frac = getattr(v, "fractional", None)
            if frac is True:
                raise exc("TypeError")
            raise Undecided("Int64Index of real array")
        if v.dtype not in ("int", "bool"):
            raise exc("TypeError")
        return v.with_kind("Int64Index")
    raise Undecided(f"Int64Index({v!r})")


@lib("pandas.RangeIndex")
def pd_rangeindex(I, args, kwargs):
    from .libmodels import make_range
    if len(args) == 1 and not kwargs:
        r = make_range(I, 0, args[0], 1, "RangeIndex")
    else:
        start = arg(args, kwargs, 0, "start", 0)
        stop = arg(args, kwargs, 1, "stop")
        step = arg(args, kwargs, 2, "step", 1)
        r = make_range(I, start, stop, step if step is not None else 1, "RangeIndex")
    return r


@lib("pandas.Index")
def pd_index(I, args, kwargs):
    v = args[0]
    a = to_arr(I, v)
    return a.with_kind("Int64Index" if a.dtype in ("int", "bool") else "Index")


from . import libpd  # noqa: E402,F401


# ----------------------------------------------------------------------------- dunder methods of index / array
# (ForecastingHorizon delegates these to its wrapped pandas index)

def _mk_dunder(opname, cmp=False, reflected=False):
    def f(I, recv, args, kwargs):
        o = args[0]
        if cmp:
            return I.compare(opname, recv, o)
        return I.binop(opname, o, recv) if reflected else I.binop(opname, recv, o)
    return f


for _d, _op in (("add", "Add"), ("sub", "Sub"), ("mul", "Mult"), ("div", "Div"), ("truediv", "Div"), ("pow", "Pow"),
                ("mod", "Mod"), ("floordiv", "FloorDiv")):
    for _kind in ("arr", "series"):
        from .libmodels import METHODS as _M
        _M[(_kind, f"__{_d}__")] = _mk_dunder(_op)
        _M[(_kind, f"__r{_d}__")] = _mk_dunder(_op, reflected=True)
for _d, _op in (("gt", "Gt"), ("ge", "GtE"), ("lt", "Lt"), ("le", "LtE"), ("eq", "Eq"), ("ne", "NotEq")):
    for _kind in ("arr", "series"):
        _M[(_kind, f"__{_d}__")] = _mk_dunder(_op, cmp=True)


@method("arr", "__len__")
def arr_len(I, recv, args, kwargs):
    return recv.len


@method("arr", "__getitem__")
def arr_getitem_m(I, recv, args, kwargs):
    return arr_getitem(I, recv, args[0])


@method("arr", "__divmod__", "__rdivmod__")
def arr_divmod(I, recv, args, kwargs):
    raise Undecided("divmod on index")


# ----------------------------------------------------------------------------- reshape / stacking (C-order)

def _mul(I, a, b):
    return ops.scalar_arith(I.ctx, "Mult", a, b)


def _zdiv(a, b):
    """floor division for b > 0 as a pure term (z3 div), usable under quantifiers"""
    if not is_sym(a) and not is_sym(b):
        return a // b
    return simp(to_z3(a) / to_z3(b))


def _zmod(a, b):
    if not is_sym(a) and not is_sym(b):
        return a % b
    return simp(to_z3(a) % to_z3(b))


@method("arr", "reshape")
def arr_reshape(I, recv, args, kwargs):
    shp = list(args[0].items) if len(args) == 1 and isinstance(args[0], SList) else list(args)
    a = recv
    USED.add("ndarray.reshape: C-order (row-major) re-indexing")

    def is_m1(x):
        return not is_sym(x) and x == -1
    if a.ndim == 1 and len(shp) == 2:
        n = a.len
        if (is_m1(shp[0]) or shp[0] is n) and (not is_sym(shp[1]) and shp[1] == 1):
            return SArr((n, 1), lambda i, j: a.fn(i), a.dtype, "ndarray")
        if (not is_sym(shp[0]) and shp[0] == 1) and (is_m1(shp[1]) or shp[1] is n):
            return SArr((1, n), lambda i, j: a.fn(j), a.dtype, "ndarray")
        # (rows, cols) with rows*cols == n
        rows, cols = shp
        if is_m1(rows) or is_m1(cols):
            raise Undecided("reshape 1d -> 2d with inferred dimension")
        if not I.ctx.entails(Eq(_mul(I, rows, cols), n)):
            if I.ctx.branch(Not(Eq(_mul(I, rows, cols), n)), "reshape-size-mismatch"):
                raise SymRaise(ExcVal(ExtClass("builtins.ValueError"), ()), where="reshape: size mismatch")
        return SArr((rows, cols), lambda i, j: a.fn(simp(to_z3(i) * to_z3(cols) + to_z3(j)) if (is_sym(i) or is_sym(cols) or is_sym(j)) else i * cols + j), a.dtype, "ndarray")
    if a.ndim == 2 and len(shp) == 1:
        r, c = a.shape
        return SArr((_mul(I, r, c),), lambda q: a.fn(_zdiv(q, c), _zmod(q, c)), a.dtype, "ndarray")
    if a.ndim == 3 and len(shp) == 2 and is_m1(shp[1]):
        r, b, c = a.shape
        if not (shp[0] is r) and not I.ctx.entails(Eq(shp[0], r)):
            raise Undecided("reshape 3d -> 2d with a different leading dimension")
        return SArr((r, _mul(I, b, c)), lambda i, q: a.fn(i, _zdiv(q, c), _zmod(q, c)), a.dtype, "ndarray")
    if a.ndim == 2 and len(shp) == 2 and is_m1(shp[1]):
        if shp[0] is a.shape[0] or I.ctx.entails(Eq(shp[0], a.shape[0])):
            return a
    raise Undecided(f"reshape {a.shape} -> {shp}")


@lib("numpy.column_stack")
def np_column_stack(I, args, kwargs):
    items = I.iter_concrete(args[0])
    if any(isinstance(p, Opaque) for p in items):
        o = Opaque("column_stack", prov=("column_stack", list(items)))
        return o
    parts = [to_arr(I, p) for p in items]
    return hstack2(I, parts)


@lib("numpy.expand_dims")
def np_expand_dims(I, args, kwargs):
    a = to_arr(I, args[0])
    ax = arg(args, kwargs, 1, "axis")
    if a.ndim == 2 and ax == 1:
        return SArr((a.shape[0], 1, a.shape[1]), lambda i, j, k: a.fn(i, k), a.dtype, "ndarray")
    if a.ndim == 1 and ax == 1:
        return SArr((a.shape[0], 1), lambda i, j: a.fn(i), a.dtype, "ndarray")
    raise Undecided("expand_dims")


@lib("numpy.sum", "numpy.nansum")
def np_sum(I, args, kwargs):
    from .libmodels import _sum
    v = args[0]
    if isinstance(v, SArr) and v.dtype == "bool" and v.ndim == 1:
        return _sum(I, [v], {})
    if isinstance(v, SArr) and v.dtype in ("int", "real") and v.ndim in (1, 2):
        # sum of a numeric array: an uninterpreted aggregate, recorded with the array it is given (like np.average)
        kw = dict(kwargs)
        if len(args) > 1:
            kw["axis"] = args[1]
        return _record_agg(I, "numpy.sum", v, kw)
    raise Undecided("np.sum of numeric array")


@lib("numpy.isinf")
def np_isinf(I, args, kwargs):
    v = args[0]
    if isinstance(v, SArr):
        return ops.map_arr(v, lambda x: False, dtype="bool", kind="ndarray")
    return False


@lib("numpy.roll")
def np_roll(I, args, kwargs):
    a = to_arr(I, args[0])
    shift = arg(args, kwargs, 1, "shift")
    n = a.len
    USED.add("np.roll(a, s)[i] == a[(i - s) mod len(a)];  np.resize(a, m)[i] == a[i mod len(a)]")
    return SArr((n,), lambda i: a.fn(pure_arith(I, "Mod", pure_arith(I, "Sub", i, shift), n)), a.dtype, "ndarray")


@lib("numpy.resize")
def np_resize(I, args, kwargs):
    a = to_arr(I, args[0])
    m = args[1]
    if isinstance(m, SList):
        m = m.items[0]
    n = a.len
    return SArr((m,), lambda i: a.fn(pure_arith(I, "Mod", i, n)), a.dtype, "ndarray")


@lib("numpy.tile")
def np_tile(I, args, kwargs):
    a = to_arr(I, args[0])
    reps = arg(args, kwargs, 1, "reps")
    n = a.len
    USED.add("np.tile(a, r)[i] == a[i mod len(a)], length r*len(a)")
    return SArr((ops.scalar_arith(I.ctx, "Mult", n, reps),), lambda i: a.fn(pure_arith(I, "Mod", i, n)), a.dtype, "ndarray")


# ----------------------------------------------------------------------------- aggregators (uninterpreted, recorded)

@lib("numpy.nanmean", "numpy.mean", "numpy.nanmedian", "numpy.median", "numpy.std", "numpy.var")
def np_nanmean(I, args, kwargs):
    """aggregates are uninterpreted: the call is recorded in the ghost trace with the array it is given (contracts
    state WHICH cells feed each output); the result of a 2-d axis=0 aggregate is one uninterpreted value per column"""
    from .libmodels import Event
    name = I.cur_node.func.attr
    a = to_arr(I, args[0])
    axis = arg(args, kwargs, 1, "axis")
    USED.add(f"np.{name}: uninterpreted aggregator, recorded with its argument")
    if a.ndim == 1 and axis in (None, 0):
        r = I.ctx.fresh_real(name)
        I.ctx.trace.append(Event(None, name, [a], {"axis": axis}, r, getattr(I.ctx, "loop_k", None)))
        return r
    if a.ndim == 2 and axis == 0:
        f = I.ctx.fresh_fun(name + "_col", z3.IntSort(), z3.RealSort())
        out = SArr((a.shape[1],), lambda j: f(to_z3(j)), "real", "ndarray")
        out.ufun = f
        I.ctx.trace.append(Event(None, name, [a], {"axis": 0}, out, getattr(I.ctx, "loop_k", None)))
        return out
    if a.ndim == 2 and axis == 1 and getattr(a, "view_of", None):
        return row_agg_of_view(I, name, a)
    if a.ndim == 2 and axis in (1, -1):
        # a computed matrix (not a window of a named array): one uninterpreted value per row, recorded with its argument
        f = I.ctx.fresh_fun(name + "_row", z3.IntSort(), z3.RealSort())
        out = SArr((a.shape[0],), lambda i: f(to_z3(i)), "real", "ndarray")
        I.ctx.trace.append(Event(None, name, [a], {"axis": 1}, out, getattr(I.ctx, "loop_k", None)))
        return out
    raise Undecided(f"np.{name} with axis={axis} on {a.ndim}-d array")


def row_agg_of_view(I, name, a):
    """aggregate along axis 1 of a window base[r0:, lo:hi]: one value per row, a function of (base, row, lo, hi) only"""
    base, r0, lo, hi = a.view_of
    f = row_aggregate(I.ctx, name, base)
    USED.add(f"np.{name}(axis=1) of a window base[:, lo:hi]: uninterpreted function of (base, row, lo, hi)")
    return SArr((a.shape[0],), lambda i: f(to_z3(pure_arith(I, "Add", r0, i)), to_z3(lo), to_z3(hi)), "real", "ndarray")


# ----------------------------------------------------------------------------- elementwise real functions (exact over the reals)

def _ew2(I, a, b, f, dtype="real"):
    if isinstance(a, (SArr, SList)) or isinstance(b, (SArr, SList)):
        a2 = to_arr(I, a) if isinstance(a, (SArr, SList)) else a
        b2 = to_arr(I, b) if isinstance(b, (SArr, SList)) else b
        if isinstance(a2, SArr) and isinstance(b2, SArr):
            return SArr(a2.shape, lambda *i: f(a2.fn(*i), b2.fn(*i)), dtype, "ndarray")
        if isinstance(a2, SArr):
            return SArr(a2.shape, lambda *i: f(a2.fn(*i), b2), dtype, "ndarray")
        return SArr(b2.shape, lambda *i: f(a2, b2.fn(*i)), dtype, "ndarray")
    return f(a, b)


@lib("numpy.maximum")
def np_maximum(I, args, kwargs):
    return _ew2(I, args[0], args[1], lambda x, y: Max(ops.as_real(x), ops.as_real(y)))


@lib("numpy.minimum")
def np_minimum(I, args, kwargs):
    return _ew2(I, args[0], args[1], lambda x, y: Min(ops.as_real(x), ops.as_real(y)))


@lib("numpy.square")
def np_square(I, args, kwargs):
    v = args[0]
    if isinstance(v, SArr):
        return ops.map_arr(v, lambda x: ops.scalar_arith(I.ctx, "Mult", x, x) if not I.ctx.in_quant else ops.as_real(x) * ops.as_real(x), dtype="real")
    return ops.scalar_arith(I.ctx, "Mult", v, v)


@lib("numpy.where")
def np_where(I, args, kwargs):
    if len(args) != 3:
        raise Undecided("np.where with one argument")
    c, x, y = args
    c = to_arr(I, c) if isinstance(c, (SArr, SList)) else c
    x2 = to_arr(I, x) if isinstance(x, (SArr, SList)) else x
    y2 = to_arr(I, y) if isinstance(y, (SArr, SList)) else y
    if isinstance(c, SArr):
        gx = (lambda *i: x2.fn(*i)) if isinstance(x2, SArr) else (lambda *i: x2)
        gy = (lambda *i: y2.fn(*i)) if isinstance(y2, SArr) else (lambda *i: y2)
        return SArr(c.shape, lambda *i: If(c.fn(*i), ops.as_real(gx(*i)), ops.as_real(gy(*i))), "real", "ndarray")
    return If(I.as_bool(c), x, y)


@lib("numpy.finfo")
def np_finfo(I, args, kwargs):
    o = Opaque("finfo")
    from fractions import Fraction
    o.attrs = {"eps": Fraction(1, 2 ** 52)}
    USED.add("np.finfo(np.float64).eps == 2**-52 (exact rational)")
    return o


@method("arr", "swapaxes")
def arr_swapaxes(I, recv, args, kwargs):
    a, b = args
    if recv.ndim == 3 and {a, b} == {1, 2}:
        return SArr((recv.shape[0], recv.shape[2], recv.shape[1]), lambda i, j, k: recv.fn(i, k, j), recv.dtype, recv.kind)
    raise Undecided("swapaxes")


def _reshape_2d_to_3d(I, a, shp):
    n, t, c = shp
    if not I.ctx.entails(And(Eq(_mul(I, n, t), a.shape[0]), Eq(c, a.shape[1]))):
        if I.ctx.branch(Not(And(Eq(_mul(I, n, t), a.shape[0]), Eq(c, a.shape[1]))), "reshape-size-mismatch"):
            raise SymRaise(ExcVal(ExtClass("builtins.ValueError"), ()), where="reshape: size mismatch")
    return SArr((n, t, c), lambda i, j, k: a.fn(simp(to_z3(i) * to_z3(t) + to_z3(j)), k), a.dtype, "ndarray")


_old_reshape = arr_reshape


@method("arr", "reshape")
def arr_reshape2(I, recv, args, kwargs):
    shp = list(args[0].items) if len(args) == 1 and isinstance(args[0], SList) else list(args)
    if recv.ndim == 2 and len(shp) == 3:
        USED.add("ndarray.reshape: C-order (row-major) re-indexing")
        return _reshape_2d_to_3d(I, recv, shp)
    return _old_reshape(I, recv, args, kwargs)


# ----------------------------------------------------------------------------- C17 additions: argmax, member averages, list accumulators

def argmax_rows(ctx, base):
    """AM_base(i): position of the FIRST maximal entry of row i of the 2-d array `base` (np.argmax semantics);
    the defining axiom is asserted once per base array"""
    memo = ctx.__dict__.setdefault("argmax_rows", {})
    key = agg_key(base)
    if key not in memo:
        S = _spec()
        f = z3.Function(f"argmax_row_{key}", z3.IntSort(), z3.IntSort())
        memo[key] = f
        n, c = base.shape
        ax = S.ForAll(lambda i: And(f(to_z3(i)) >= 0, f(to_z3(i)) < to_z3(c),
                                    S.ForAll(lambda j: And(ops.as_real(base.fn(i, j)) <= ops.as_real(base.fn(i, f(to_z3(i)))),
                                                           Implies(to_z3(j) < f(to_z3(i)),
                                                                   ops.as_real(base.fn(i, j)) < ops.as_real(base.fn(i, f(to_z3(i)))))),
                                             0, c, "amj")), 0, n, "ami")
        ctx.assume(ax)
        USED.add("np.argmax(row): index of the first maximal entry (axiomatised per 2-d array)")
    return memo[key]


@lib("numpy.argmax")
def np_argmax(I, args, kwargs):
    a = to_arr(I, args[0])
    axis = arg(args, kwargs, 1, "axis")
    ctx = I.ctx
    if a.ndim == 2 and axis == 1:
        if not ctx.entails(to_z3(a.shape[1]) >= 1):
            if ctx.branch(to_z3(a.shape[1]) < 1, "argmax-empty"):
                raise SymRaise(ExcVal(ExtClass("builtins.ValueError"), ()), where="argmax of an empty sequence")
        f = argmax_rows(ctx, a)
        return SArr((a.shape[0],), lambda i: f(to_z3(i)), "int", "ndarray")
    if a.ndim == 1 and axis in (None, 0):
        ro = getattr(a, "row_of", None)
        if ro is not None:
            base, k = ro
            if not ctx.entails(to_z3(base.shape[1]) >= 1):
                if ctx.in_quant:
                    raise Undecided("argmax of a possibly empty row inside a comprehension")
                if ctx.branch(to_z3(base.shape[1]) < 1, "argmax-empty"):
                    raise SymRaise(ExcVal(ExtClass("builtins.ValueError"), ()), where="argmax of an empty sequence")
            return argmax_rows(ctx, base)(to_z3(k))
        n = simp(a.len)
        if is_sym(n):
            raise Undecided("argmax of a 1-d array of symbolic length that is not a row of a 2-d array")
        if n == 0:
            raise SymRaise(ExcVal(ExtClass("builtins.ValueError"), ()), where="argmax of empty")
        b = ctx.fresh_int("argmax")
        ctx.assume(And(b >= 0, b < n))
        for j in range(n):
            vj = ops.as_real(a.fn(j))
            ctx.assume(Implies(Eq(b, j), And(*[(vj >= ops.as_real(a.fn(k_))) for k_ in range(n)] + [(vj > ops.as_real(a.fn(k_))) for k_ in range(j)])))
        return b
    raise Undecided(f"np.argmax axis={axis} on {a.ndim}-d array")


def _members(I, v):
    """a concrete-length python list of equally shaped arrays (e.g. joblib results) -> list of SArr, else None"""
    if isinstance(v, SList) and v.items and all(isinstance(x, SArr) for x in v.items):
        return list(v.items)
    if isinstance(v, SArr) and getattr(v, "stack_of", None):
        return list(v.stack_of)
    return None


def _cellwise_sum(I, parts):
    p0 = parts[0]

    def fn(*i):
        out = ops.as_real(parts[0].fn(*i))
        for p in parts[1:]:
            out = out + ops.as_real(p.fn(*i))
        return simp(out)
    return SArr(p0.shape, fn, "real", "ndarray")


_prev_np_sum = np_sum


@lib("numpy.sum", "numpy.nansum")
def np_sum2(I, args, kwargs):
    parts = _members(I, args[0])
    if parts is not None and arg(args, kwargs, 1, "axis") == 0:
        USED.add("np.sum / np.mean / np.average over axis 0 of a list of m equally shaped arrays: cell-wise sum (/ m); "
                 "member shapes are taken from the first member")
        return _cellwise_sum(I, parts)
    return _prev_np_sum(I, args, kwargs)


_prev_np_nanmean = np_nanmean


@lib("numpy.nanmean", "numpy.mean", "numpy.nanmedian", "numpy.median", "numpy.std", "numpy.var")
def np_nanmean2(I, args, kwargs):
    name = I.cur_node.func.attr
    parts = _members(I, args[0]) if name == "mean" else None
    if parts is not None and arg(args, kwargs, 1, "axis") == 0:
        s = _cellwise_sum(I, parts)
        m = len(parts)
        USED.add("np.sum / np.mean / np.average over axis 0 of a list of m equally shaped arrays: cell-wise sum (/ m); "
                 "member shapes are taken from the first member")
        return SArr(s.shape, lambda *i: simp(s.fn(*i) / z3.RealVal(m)), "real", "ndarray")
    return _prev_np_nanmean(I, args, kwargs)


@lib("numpy.average")
def np_average(I, args, kwargs):
    parts = _members(I, args[0])
    if parts is not None and arg(args, kwargs, 1, "axis") == 0 and kwargs.get("weights") is None:
        s = _cellwise_sum(I, parts)
        m = len(parts)
        USED.add("np.sum / np.mean / np.average over axis 0 of a list of m equally shaped arrays: cell-wise sum (/ m); "
                 "member shapes are taken from the first member")
        return SArr(s.shape, lambda *i: simp(s.fn(*i) / z3.RealVal(m)), "real", "ndarray")
    raise Undecided(f"np.average of {args[0]!r} axis={arg(args, kwargs, 1, 'axis')}")


_prev_np_array = np_array


@lib("numpy.array", "numpy.asarray")
def np_array2(I, args, kwargs):
    v = args[0]
    if isinstance(v, SList) and v.items and all(isinstance(x, SArr) and x.ndim == 2 for x in v.items):
        # stack of m matrices: (m, r, c); kept as a stack so that axis-0 aggregates stay exact
        parts = list(v.items)
        p0 = parts[0]

        def fn(k, i, j):
            if not is_sym(k):
                return parts[k].fn(i, j)
            out = parts[-1].fn(i, j)
            for q in range(len(parts) - 2, -1, -1):
                out = If(Eq(k, q), parts[q].fn(i, j), out)
            return out
        out = SArr((len(parts), p0.shape[0], p0.shape[1]), fn, p0.dtype, "ndarray")
        out.stack_of = parts
        return out
    return _prev_np_array(I, args, kwargs)


@method("arr", "squeeze")
def arr_squeeze(I, recv, args, kwargs):
    ax = arg(args, kwargs, 0, "axis")
    if recv.ndim == 3 and ax == 1:
        c = recv.shape[1]
        if not I.ctx.entails(Eq(c, 1)):
            if I.ctx.branch(Not(Eq(c, 1)), "squeeze-not-1"):
                raise SymRaise(ExcVal(ExtClass("builtins.ValueError"), ()), where="cannot select an axis to squeeze out which has size not equal to one")
        out = SArr((recv.shape[0], recv.shape[2]), lambda i, j: recv.fn(i, 0, j), recv.dtype, recv.kind)
        out.name = recv.name
        out._agg_key = agg_key(recv)
        return out
    if ax is None and recv.ndim == 2 and ((not is_sym(recv.shape[1]) and recv.shape[1] == 1) or
                                         (is_sym(recv.shape[1]) and I.ctx.entails(Eq(recv.shape[1], 1)))):
        # (n, 1).squeeze(): the n values as a vector (for n == 1 numpy gives a 0-d array holding the same value: it broadcasts
        # identically in the assignments / arithmetic that follow)
        USED.add("(n, 1).squeeze() -> the n values as a vector")
        return SArr((recv.shape[0],), lambda i: recv.fn(i, 0), recv.dtype, recv.kind)
    raise Undecided("squeeze")


@method("arr", "append")
def arr_append(I, recv, args, kwargs):
    """list.append on a python list of symbolic length (a loop accumulator): rebinds the variable that holds it"""
    import ast
    if recv.kind != "list" or recv.ndim != 1:
        raise exc("AttributeError")
    v = args[0]
    n = recv.len
    old = recv.fn
    dt = recv.dtype
    if is_reallike(v) and dt == "int":
        dt = "real"
    new = SArr((simp(to_z3(n) + 1),), lambda i: If(Eq(i, n), v, old(i)), dt, "list")
    node = I.cur_node
    if not (isinstance(node, ast.Call) and isinstance(node.func, ast.Attribute)):
        raise Undecided("append on a symbolic list reached through a complex expression")
    _rebind(I, node.func.value, new, I.cur_env, recv)
    return None


# ----------------------------------------------------------------------------- C14 additions: np.pad, as_strided

@lib("numpy.pad")
def np_pad(I, args, kwargs):
    a = to_arr(I, args[0])
    pw = arg(args, kwargs, 1, "pad_width")
    mode = arg(args, kwargs, 2, "mode", "constant")
    if a.ndim != 1:
        raise Undecided("np.pad of an n-d array")
    if isinstance(pw, SList):
        if len(pw.items) != 2:
            raise Undecided("np.pad pad_width")
        before, after = pw.items
    else:
        before = after = pw
    n = a.len
    ctx = I.ctx
    for w in (before, after):
        if not ctx.entails(to_z3(w) >= 0):
            if ctx.branch(to_z3(w) < 0, "pad-negative"):
                raise SymRaise(ExcVal(ExtClass("builtins.ValueError"), ()), where="index can't contain negative values")
    total = pure_arith(I, "Add", pure_arith(I, "Add", before, n), after)
    if mode == "edge":
        if not ctx.entails(to_z3(n) >= 1):
            if ctx.branch(to_z3(n) < 1, "pad-empty"):
                raise SymRaise(ExcVal(ExtClass("builtins.ValueError"), ()), where="can't extend empty axis using modes other than constant")
        USED.add("np.pad(a, p, mode='edge')[i] == a[clip(i - p, 0, len(a) - 1)]")

        def fn(i):
            j = to_z3(i) - to_z3(before)
            return a.fn(simp(z3.If(j < 0, 0, z3.If(j > to_z3(n) - 1, to_z3(n) - 1, j))))
        return SArr((total,), fn, a.dtype, "ndarray")
    if mode == "constant":
        cv = kwargs.get("constant_values", 0)
        USED.add("np.pad(a, (p, q), 'constant', constant_values=c)[i] == a[i - p] inside, c outside")
        return SArr((total,), lambda i: If(And(to_z3(i) >= to_z3(before), to_z3(i) < to_z3(before) + to_z3(n)),
                                           a.fn(simp(to_z3(i) - to_z3(before))), cv), "real" if (is_reallike(cv) or cv is NAN) else a.dtype, "ndarray")
    raise Undecided(f"np.pad mode {mode!r}")


@lib("numpy.lib.stride_tricks.as_strided")
def np_as_strided(I, args, kwargs):
    """as_strided(a, shape=(r, w), strides=(itemsize, itemsize))[t, j] == a[t + j]; reading beyond the buffer is modelled as an
    error (pseudo-exception OutOfBoundsRead) so that no contract can be satisfied by it"""
    a = to_arr(I, args[0])
    shape, strides = kwargs.get("shape"), kwargs.get("strides")
    if a.ndim != 1 or not isinstance(shape, SList) or len(shape.items) != 2 or not isinstance(strides, SList) or len(strides.items) != 2:
        raise Undecided("as_strided pattern")
    it = _itemsize(I)
    if not all(x is it for x in strides.items):
        raise Undecided("as_strided with strides other than (itemsize, itemsize)")
    r, w = shape.items
    ctx = I.ctx
    inb = Or(to_z3(r) <= 0, to_z3(w) <= 0, to_z3(r) + to_z3(w) - 2 < to_z3(a.len))
    if not ctx.entails(inb):
        if ctx.branch(Not(inb), "as_strided-oob"):
            raise SymRaise(ExcVal(ExtClass("builtins.OutOfBoundsRead"), ()), where="as_strided view reaches beyond the buffer")
    USED.add("as_strided(a, (r, w), (itemsize, itemsize))[t, j] == a[t + j]")
    return SArr((r, w), lambda t, j: a.fn(pure_arith(I, "Add", t, j)), a.dtype, "ndarray")


def _itemsize(I):
    memo = I.ctx.__dict__.setdefault("itemsize_token", None)
    if memo is None:
        memo = I.ctx.fresh_int("itemsize")
        I.ctx.assume(memo >= 1)
        I.ctx.itemsize_token = memo
    return memo


@lib("numpy.array_split")
def np_array_split(I, args, kwargs):
    """np.array_split(a, m) for a concrete number of sections m: the first len(a) % m sections have len(a) // m + 1 elements,
    the others len(a) // m, in order"""
    a = to_arr(I, args[0])
    m = arg(args, kwargs, 1, "indices_or_sections")
    if a.ndim != 1 or is_sym(m) or not isinstance(m, int):
        raise Undecided("array_split with symbolic / non-integer sections")
    if m <= 0:
        raise SymRaise(ExcVal(ExtClass("builtins.ValueError"), ()), where="number sections must be larger than 0")
    n = a.len
    q, r = ops.divmod_int(I.ctx, n, m)
    USED.add("np.array_split(a, m): first len(a) % m sections have one extra element")
    out = []
    for k in range(m):
        start = simp(k * to_z3(q) + z3.If(to_z3(r) < k, to_z3(r), k))
        size = simp(to_z3(q) + z3.If(k < to_z3(r), 1, 0))
        out.append(SArr((size,), (lambda s_: (lambda i: a.fn(simp(to_z3(s_) + to_z3(i)))))(start), a.dtype, "ndarray"))
    return SList(out, "list")


@method("arr", "any")
def arr_any(I, recv, args, kwargs):
    from .libmodels import _any
    if recv.ndim != 1 or args or kwargs:
        raise Undecided("ndarray.any on n-d array / with arguments")
    return _any(I, [recv], {})


@method("arr", "all")
def arr_all(I, recv, args, kwargs):
    from .libmodels import _all
    if recv.ndim != 1 or args or kwargs:
        raise Undecided("ndarray.all on n-d array / with arguments")
    return _all(I, [recv], {})


_old_reshape3 = arr_reshape2


@method("arr", "reshape")
def arr_reshape3(I, recv, args, kwargs):
    """2-d -> 2-d with one inferred dimension: (r, c).reshape(-1, c2) / (r2, -1), C order"""
    if len(args) == 1 and isinstance(args[0], SArr) and args[0].ndim == 1 and not is_sym(args[0].len):
        # shape given as a small integer array (e.g. np.ones(ndim) with one entry set to -1)
        vals_ = [simp(args[0].fn(k)) for k in range(args[0].len)]
        if any(is_sym(v) for v in vals_):
            raise Undecided("reshape with a symbolic shape array")
        return I.lib.call_method(I, recv, "reshape", [int(v) for v in vals_], kwargs)
    shp = list(args[0].items) if len(args) == 1 and isinstance(args[0], SList) else list(args)
    a = recv

    def is_m1(x):
        return not is_sym(x) and x == -1
    if a.ndim == 2 and len(shp) == 2 and (is_m1(shp[0]) != is_m1(shp[1])):
        r, c = a.shape
        if is_m1(shp[1]) and (shp[0] is r or I.ctx.entails(Eq(shp[0], r))):
            return a
        if is_m1(shp[0]) and (shp[1] is c or I.ctx.entails(Eq(shp[1], c))):
            return a
        total = _mul(I, r, c)
        known = shp[1] if is_m1(shp[0]) else shp[0]
        if not I.ctx.entails(to_z3(known) >= 1):
            raise Undecided("reshape with an inferred dimension and a possibly non-positive known dimension")
        q, rem = ops.divmod_int(I.ctx, total, known)
        if not I.ctx.entails(Eq(rem, 0)):
            if I.ctx.branch(Not(Eq(rem, 0)), "reshape-size-mismatch"):
                raise SymRaise(ExcVal(ExtClass("builtins.ValueError"), ()), where="reshape: size mismatch")
        r2, c2 = (q, known) if is_m1(shp[0]) else (known, q)
        USED.add("ndarray.reshape: C-order (row-major) re-indexing")
        return SArr((r2, c2), lambda i, j: a.fn(_zdiv(simp(to_z3(i) * to_z3(c2) + to_z3(j)), c), _zmod(simp(to_z3(i) * to_z3(c2) + to_z3(j)), c)),
                    a.dtype, "ndarray")
    return _old_reshape3(I, recv, args, kwargs)


# ----------------------------------------------------------------------------- C06 additions: recorded column aggregates

def _record_agg(I, name, a, kwargs):
    """an external aggregate of a numeric array: uninterpreted result, recorded in the ghost trace with the array it is given"""
    from .libmodels import Event
    USED.add(f"{name}: uninterpreted aggregate, recorded with its argument")
    axis = kwargs.get("axis")
    if a.ndim == 2 and (axis == 0 or name.endswith("_weighted_percentile")):
        f = I.ctx.fresh_fun(name.split(".")[-1] + "_col", z3.IntSort(), z3.RealSort())
        out = SArr((a.shape[1],), lambda j: f(to_z3(j)), "real", "ndarray")
    elif a.ndim == 1 and axis in (None, 0):
        out = I.ctx.fresh_real(name.split(".")[-1])
    else:
        raise Undecided(f"{name} with axis={axis} on a {a.ndim}-d array")
    I.ctx.trace.append(Event(None, "agg:" + name.split(".")[-1], [a], dict(kwargs), out, getattr(I.ctx, "loop_k", None)))
    return out


_prev_np_average = np_average


@lib("numpy.average")
def np_average2(I, args, kwargs):
    if _members(I, args[0]) is not None:
        return _prev_np_average(I, args, kwargs)
    a = to_arr(I, args[0])
    kw = dict(kwargs)
    if len(args) > 1:
        kw["axis"] = args[1]
    return _record_agg(I, "numpy.average", a, kw)


@lib("sklearn.utils.stats._weighted_percentile")
def sk_weighted_percentile(I, args, kwargs):
    a = to_arr(I, args[0])
    kw = dict(kwargs)
    if len(args) > 1:
        kw["sample_weight"] = args[1]
    return _record_agg(I, "sklearn._weighted_percentile", a, kw)


@lib("scipy.stats.gmean")
def sp_gmean(I, args, kwargs):
    return _record_agg(I, "scipy.gmean", to_arr(I, args[0]), dict(kwargs))


def _sqrt_fun(ctx):
    memo = ctx.__dict__.setdefault("sqrt_fun", None)
    if memo is None:
        ctx.sqrt_fun = z3.Function("sqrt", z3.RealSort(), z3.RealSort())
    return ctx.sqrt_fun


@lib("numpy.sqrt")
def np_sqrt(I, args, kwargs):
    USED.add("np.sqrt: uninterpreted real function")
    f = _sqrt_fun(I.ctx)
    v = args[0]
    if isinstance(v, SArr):
        return ops.map_arr(v, lambda x: f(ops.as_real(x)), dtype="real")
    return f(ops.as_real(v))


@lib("numpy.apply_along_axis")
def np_apply_along_axis(I, args, kwargs):
    """np.apply_along_axis(f, axis, arr) for a scalar-valued f along the LAST axis of a 3-d array: one call of f per 1-d
    slice; recorded as one ghost event (function, axis, array), result (n, c) of uninterpreted values"""
    from .libmodels import Event
    f = arg(args, kwargs, 0, "func1d")
    axis = arg(args, kwargs, 1, "axis")
    a = to_arr(I, arg(args, kwargs, 2, "arr"))
    if a.ndim != 3 or axis not in (2, -1):
        raise Undecided("np.apply_along_axis pattern")
    g = I.ctx.fresh_fun("apply_along_axis", z3.IntSort(), z3.IntSort(), z3.RealSort())
    out = SArr((a.shape[0], a.shape[1]), lambda i, j: g(to_z3(i), to_z3(j)), "real", "ndarray")
    USED.add("np.apply_along_axis(f, axis=2, arr): f applied to every 1-d slice arr[i, j, :] (recorded, values uninterpreted)")
    I.ctx.trace.append(Event(None, "np.apply_along_axis", [f, axis, a], {}, out, getattr(I.ctx, "loop_k", None)))
    return out


@lib("scipy.signal.periodogram")
def sp_periodogram(I, args, kwargs):
    USED.add("scipy.signal.periodogram(X): (frequencies, power spectrum) -- opaque functions of X (provenance only)")
    return SList([Opaque("periodogram frequencies", prov=("periodogram_freq", args[0])),
                  Opaque("power spectrum", prov=("periodogram", args[0]))], "tuple")


@lib("numpy.diff")
def np_diff(I, args, kwargs):
    USED.add("np.diff(X, n): opaque function of X (provenance only)")
    return Opaque("differences", prov=("diff", args[0], arg(args, kwargs, 1, "n", 1)))


def inplace_array_update(I, target_expr, old, new, env):
    """`a op= b` for a numpy array: rebinding every alias (functional model of the in-place write) and reporting the write to
    frame obligations, also for the arrays `a` is a view of"""
    base = getattr(old, "view_of", None)
    seen = 0
    while base is not None and seen < 8:
        b = base[0]
        if I.ctx.frozen and id(b) in I.ctx.frozen:
            I.ctx.mutated.append((b, "in-place operator on a view of it"))
        b.stale = True            # its cells were overwritten through the view: reading them again is not modelled
        base = getattr(b, "view_of", None)
        seen += 1
    sq = getattr(old, "_agg_key", None)
    _rebind(I, target_expr, new, env, old)


@method("arr", "mean")
def arr_mean_m(I, recv, args, kwargs):
    """a.mean(): uninterpreted aggregate of all cells (recorded)"""
    from .libmodels import Event
    if args or kwargs:
        return np_nanmean2(I, [recv] + list(args), kwargs) if False else _arr_mean_axis(I, recv, args, kwargs)
    USED.add("ndarray.mean(): uninterpreted aggregate, recorded with its argument")
    r = I.ctx.fresh_real("mean")
    I.ctx.trace.append(Event(None, "mean", [recv], {}, r, getattr(I.ctx, "loop_k", None)))
    return r


def _arr_mean_axis(I, recv, args, kwargs):
    raise Undecided("ndarray.mean with arguments")


@method("arr", "sum")
def arr_sum_m(I, recv, args, kwargs):
    """a.sum(axis=0) of a stack of m equally shaped arrays == np.sum(a, axis=0)"""
    return np_sum2(I, [recv] + list(args), kwargs)


# ----------------------------------------------------------------------------- further models (so that more code variants stay decidable)

@lib("numpy.unique")
def np_unique(I, args, kwargs):
    """np.unique(a): the distinct values of a 1-d numeric array, sorted increasingly"""
    if kwargs or len(args) != 1:
        raise Undecided("np.unique with options")
    a = to_arr(I, args[0])
    if a.ndim != 1 or a.dtype == "obj":
        raise Undecided("np.unique of a non 1-d numeric array")
    ctx = I.ctx
    S = _spec()
    n = a.len
    if not is_sym(n) and n == 0:
        return SArr((0,), a.fn, a.dtype, "ndarray")
    k = ctx.fresh_int("n_unique")
    sort = z3.IntSort() if a.dtype == "int" else z3.RealSort()
    u = ctx.fresh_fun("unique", z3.IntSort(), sort)
    pos = ctx.fresh_fun("unique_pos", z3.IntSort(), z3.IntSort())       # where a value of a sits in u
    src = ctx.fresh_fun("unique_src", z3.IntSort(), z3.IntSort())       # where a value of u comes from in a
    val = (lambda x: to_z3(x)) if a.dtype == "int" else (lambda x: ops.as_real(x))
    ctx.assume(And(k >= 0, k <= to_z3(n), Implies(to_z3(n) >= 1, k >= 1)))
    ctx.assume(S.ForAll2(lambda i, j: u(to_z3(i)) < u(to_z3(j)), 0, k))                                        # strictly increasing
    ctx.assume(S.ForAll(lambda i: And(pos(to_z3(i)) >= 0, pos(to_z3(i)) < k, u(pos(to_z3(i))) == val(a.fn(i))), 0, n, "ui"))
    ctx.assume(S.ForAll(lambda j: And(src(to_z3(j)) >= 0, src(to_z3(j)) < to_z3(n), u(to_z3(j)) == val(a.fn(src(to_z3(j))))), 0, k, "uj"))
    USED.add("np.unique(a): strictly increasing, same set of values as a")
    return SArr((k,), lambda i: u(to_z3(i)), a.dtype, "ndarray")


@lib("numpy.zeros_like", "numpy.ones_like")
def np_zeros_like(I, args, kwargs):
    a = to_arr(I, args[0])
    v = Fraction(1) if I.cur_node.func.attr == "ones_like" else Fraction(0)
    return SArr(a.shape, lambda *i: v, "real", "ndarray")


@lib("pandas.api.types.is_integer_dtype")
def pd_is_integer_dtype(I, args, kwargs):
    v = args[0]
    if isinstance(v, SSeries):
        v = v.values
    if isinstance(v, SArr):
        return v.dtype == "int"
    raise Undecided("is_integer_dtype of a non-array value")


@method("arr", "isin")
def arr_isin(I, recv, args, kwargs):
    """Index.isin(values): element-wise membership"""
    other = to_arr(I, args[0].values if isinstance(args[0], SSeries) else args[0])
    if recv.ndim != 1 or other.ndim != 1:
        raise Undecided("isin on n-d arrays")
    S = _spec()
    USED.add("Index.isin(values): element-wise membership")
    return SArr(recv.shape, lambda i: S.Exists(lambda j: Eq(other.fn(j), recv.fn(i)), 0, other.len, "isj"), "bool", "ndarray")


# ----------------------------------------------------------------------------- transcendental element-wise functions (uninterpreted)

def _real_fun(ctx, name, arity=1):
    memo = ctx.__dict__.setdefault("real_funs", {})
    if name not in memo:
        memo[name] = z3.Function(name, *([z3.RealSort()] * arity), z3.RealSort())
    return memo[name]


def _elementwise_uf(I, name, v, extra=()):
    f = _real_fun(I.ctx, name, 1 + len(extra))
    USED.add(f"{name}: uninterpreted real function applied element-wise (no numeric properties assumed)")
    ex = [ops.as_real(e) for e in extra]
    if isinstance(v, SSeries):
        return SSeries(v.index, ops.map_arr(v.values, lambda x: f(ops.as_real(x), *ex), dtype="real", kind="ndarray"), v.name)
    if isinstance(v, SArr):
        return ops.map_arr(v, lambda x: f(ops.as_real(x), *ex), dtype="real", kind="ndarray")
    return f(ops.as_real(v), *ex)


@lib("numpy.log")
def np_log(I, args, kwargs):
    return _elementwise_uf(I, "log", args[0])


@lib("numpy.exp")
def np_exp(I, args, kwargs):
    return _elementwise_uf(I, "exp", args[0])


@lib("scipy.stats.boxcox", "scipy.special.boxcox")
def sp_boxcox(I, args, kwargs):
    if len(args) < 2 or is_numlike(args[1]) is False and args[1] is None:
        raise Undecided("boxcox without a given lambda (optimiser)")
    return _elementwise_uf(I, "boxcox", to_arr(I, args[0]), extra=(args[1],))


@lib("scipy.special.inv_boxcox")
def sp_inv_boxcox(I, args, kwargs):
    return _elementwise_uf(I, "inv_boxcox", to_arr(I, args[0]), extra=(args[1],))


@lib("numpy.sign")
def np_sign(I, args, kwargs):
    """elementwise sign: -1, 0 or 1 (0 for an exact zero)"""
    v = args[0]

    def sg(x):
        x = ops.as_real(x)
        return z3.If(x > 0, z3.RealVal(1), z3.If(x < 0, z3.RealVal(-1), z3.RealVal(0)))
    if isinstance(v, SSeries):
        return SSeries(v.index, ops.map_arr(v.values, sg, dtype="real"), v.name)
    if isinstance(v, SArr):
        return ops.map_arr(v, sg, dtype="real")
    return sg(v)


@lib("numpy.ndim")
def np_ndim(I, args, kwargs):
    v = args[0]
    if isinstance(v, SArr):
        return v.ndim
    if isinstance(v, SSeries):
        return 1
    if isinstance(v, SFrame):
        return 2
    if is_numlike(v):
        return 0
    raise Undecided(f"np.ndim of {v!r}")
