"""Contract language: sidecar contracts are Python objects whose clauses are lambdas over the
symbolic values of the interpreter (the same lambdas can be run on concrete values)."""
import z3

from . import ops
from .ctx import SymRaise, Undecided
from .ops import And, Eq, If, Implies, Max, Min, Not, Or, simp
from .values import (NAN, AbstractObj, ExcVal, ExtClass, GenVal, Opaque, SArr, SDict, SFrame,
                     SList, SObj, SSeries, is_boollike, is_intlike, is_numlike, is_reallike,
                     is_sym, to_int_term, to_z3)

CUR = None          # current Interp (set by the engine) -- needed for fresh names in quantifiers
REGISTRY = {}       # "path::qualname" -> Contract


class SpecNameError(AttributeError):
    """a contract refers to a parameter / local variable that the function (no longer) has"""


class NS:
    """attribute namespace (parameters at entry, loop state ...)"""

    def __init__(_ns, d=None, **kw):
        _ns.__dict__.update(d or {})
        _ns.__dict__.update(kw)

    def __getattr__(self, k):
        raise SpecNameError(f"spec namespace has no {k!r} (have {sorted(self.__dict__)})")


class Contract:
    def __init__(self, target, prop, cases=None, inputs=None, pre=None, returns=None, ensures=None,
                 raises=None, yields_count=None, yields_item=None, invariants=None, result=None,
                 modular=True, allow_exc=(), notes=(), frame=None, loop_havoc=None, expect=None,
                 may_raise=None, events=None, abstract_hook=None, native=None, assumed=False, on_raise=None, best_effort=False, applicable=None, record_call=False,
                 zero_divisor_outside=None):
        self.target = target
        self.prop = prop
        self.cases = cases or ["-"]
        self.inputs = inputs
        self.pre = pre
        self.returns = returns
        self.ensures = ensures or []          # list of (name, fn(A, result))
        self.raises = raises or []            # list of (ExcName, cond(A))
        self.yields_count = yields_count
        self.yields_item = yields_item
        self.invariants = invariants or {}    # loop ordinal -> fn(S)
        self.result = result                  # builder of a fresh result for modular use
        self.usable_modularly = modular
        self.allow_exc = allow_exc
        self.notes = list(notes)
        self.frame = frame
        self.loop_havoc = loop_havoc or {}
        self.expect = expect or {}            # case -> 'raise' if the case is expected to raise only
        self.may_raise = may_raise            # list of (ExcName, cond(A)): permitted, not required
        self.events = events                  # loop ordinal -> fn(S, events) -> Bool (trace schema)
        self.abstract_hook = abstract_hook    # model of calls on abstract objects while verifying this fn
        self.native = native                  # name of the native replay function (contracts/native.py)
        self.on_raise = on_raise or []        # list of (name, fn(A)): must hold when the function raises
        self.record_call = record_call        # modular uses are recorded in the ghost trace as Event(None, 'call:<name>', args)
        self.applicable = applicable          # structural guard (python bool) for modular use; if False the callee is inlined
        self.best_effort = best_effort        # undecided jobs are listed as not covered instead of making the run undecided
        # text naming the inputs for which an array element of the result divides by zero (numpy: inf / nan) when such inputs are
        # OUTSIDE what the contract speaks about (e.g. weights that sum to zero); those paths are cut and the text is reported as
        # an assumption.  Default None: such a path is an obligation that only infeasibility discharges.
        self.zero_divisor_outside = zero_divisor_outside
        self.assumed = assumed                # contract NOT verified (external / trusted): only usable at call sites, listed as assumption
        REGISTRY[target] = self

    @property
    def path(self):
        return self.target.split("::")[0]

    @property
    def qualname(self):
        return self.target.split("#")[0].split("::")[1]


def contract(target, prop, **kw):
    return Contract(target, prop, **kw)


LEMMAS = {}


class Lemma:
    """level-2 obligation: contracts |= property statement.  fn(B) builds symbolic values,
    assumes contract postconditions (by calling the contracts' spec functions) and returns the
    goal(s)."""

    def __init__(self, name, prop, fn, uses=(), notes=()):
        self.name = name
        self.prop = prop
        self.fn = fn
        self.uses = list(uses)
        self.notes = list(notes)
        LEMMAS[name] = self


def lemma(name, prop, uses=(), notes=()):
    def deco(fn):
        Lemma(name, prop, fn, uses, notes)
        return fn
    return deco


# ------------------------------------------------------------------ quantifiers ---------

def _fresh_bound(name):
    return z3.Int(CUR.ctx.fresh_name("$" + name))


def ForAll(f, lo, hi, name="i"):
    """forall lo <= i < hi. f(i)"""
    if not is_sym(lo) and not is_sym(hi) and hi - lo <= 6:
        return And(*[f(j) for j in range(lo, hi)])
    i = _fresh_bound(name)
    CUR.ctx.in_quant += 1
    try:
        body = f(i)
    finally:
        CUR.ctx.in_quant -= 1
    if isinstance(body, bool):
        return True if body else Not(And(to_z3(lo) <= i, i < to_z3(hi)))
    return z3.ForAll([i], z3.Implies(z3.And(to_z3(lo) <= i, i < to_z3(hi)), body))


def Exists(f, lo, hi, name="e"):
    i = _fresh_bound(name)
    CUR.ctx.in_quant += 1
    try:
        body = f(i)
    finally:
        CUR.ctx.in_quant -= 1
    return z3.Exists([i], z3.And(to_z3(lo) <= i, i < to_z3(hi), to_z3(body)))


def Len(x):
    if isinstance(x, SArr):
        return x.len
    if isinstance(x, SList):
        return len(x.items)
    if isinstance(x, SSeries):
        return x.index.len
    if isinstance(x, SFrame):
        return x.index.len
    if isinstance(x, GenVal):
        return x.count
    if isinstance(x, (str, SDict)):
        return len(x if isinstance(x, str) else x.items)
    raise Undecided(f"Len of {x!r}")


def At(x, *idx):
    if isinstance(x, SArr):
        return x.fn(*idx)
    if isinstance(x, SList):
        i = idx[0]
        if is_sym(i):
            return ops.arr_from_items(x.items).fn(i)
        return x.items[i]
    if isinstance(x, SSeries):
        return x.values.fn(*idx)
    raise Undecided(f"At of {x!r}")


def ForAll2(f, lo, hi, names=("i", "j")):
    """forall lo <= i < j < hi. f(i, j)   (pairwise form: no induction needed to use it)"""
    if not is_sym(lo) and not is_sym(hi) and hi - lo <= 5:
        return And(*[f(a, b) for a in range(lo, hi) for b in range(a + 1, hi)])
    i = _fresh_bound(names[0])
    j = _fresh_bound(names[1])
    CUR.ctx.in_quant += 1
    try:
        body = f(i, j)
    finally:
        CUR.ctx.in_quant -= 1
    if isinstance(body, bool):
        return True if body else Not(And(to_z3(lo) <= i, i < j, j < to_z3(hi)))
    return z3.ForAll([i, j], z3.Implies(z3.And(to_z3(lo) <= i, i < j, j < to_z3(hi)), body))


def strictly_increasing(a, n=None):
    """pairwise: forall i<j. a[i] < a[j]"""
    n = Len(a) if n is None else n
    return ForAll2(lambda i, j: ops.scalar_cmp("Lt", At(a, i), At(a, j)), 0, n)


def strictly_decreasing(a, n=None):
    n = Len(a) if n is None else n
    return ForAll2(lambda i, j: ops.scalar_cmp("Gt", At(a, i), At(a, j)), 0, n)


def sorted_nondecr(a):
    n = Len(a)
    return ForAll2(lambda i, j: ops.scalar_cmp("LtE", At(a, i), At(a, j)), 0, n)


def pairwise_distinct(a):
    return ForAll2(lambda i, j: ops.scalar_cmp("NotEq", At(a, i), At(a, j)), 0, Len(a))


def as_arr(x):
    if isinstance(x, SArr):
        return x
    if isinstance(x, SList):
        return ops.arr_from_items(x.items, kind=x.kind)
    if isinstance(x, SSeries):
        return x.values
    raise Undecided(f"as_arr {x!r}")


def Range(start, n, step=1, kind=None):
    """spec value: sequence start, start+step, ... of length n"""
    if not is_sym(step) and step == 1:
        return SArr((n,), lambda i: simp(to_z3(start) + i) if (is_sym(start) or is_sym(i)) else start + i,
                    "int", kind, closed=(start, 1))
    return SArr((n,), lambda i: simp(to_z3(start) + to_z3(i) * to_z3(step)), "int", kind, closed=(start, step))


def Seq(n, f, dtype="int", kind=None):
    return SArr((n,), f, dtype, kind)


def Tup(*xs):
    return SList(xs, "tuple")


# ------------------------------------------------------------------ equivalence ---------

def equiv(a, b, strict_kind=False):
    """formula: the two values are observationally equal (shape, elements)"""
    if a is None or b is None:
        return a is None and b is None
    if a is NAN or b is NAN:
        return a is b
    if isinstance(a, str) or isinstance(b, str):
        return isinstance(a, str) and isinstance(b, str) and a == b
    if is_numlike(a) and is_numlike(b):
        if is_reallike(a) != is_reallike(b):
            a, b = ops.as_real(a), ops.as_real(b)
        return Eq(a, b)
    if isinstance(a, SList) and isinstance(b, SList):
        if len(a.items) != len(b.items):
            return False
        return And(*[equiv(x, y) for x, y in zip(a.items, b.items)])
    if isinstance(a, (SArr, SList)) and isinstance(b, (SArr, SList)):
        a, b = as_arr(a), as_arr(b)
        if a.ndim != b.ndim:
            return False
        if strict_kind and a.kind and b.kind and a.kind != b.kind:
            return False
        if a.dtype == "obj" or b.dtype == "obj":
            raise Undecided("equivalence of object arrays")
        shp = And(*[Eq(x, y) for x, y in zip(a.shape, b.shape)])
        if a.ndim == 1:
            el = ForAll(lambda i: equiv(a.fn(i), b.fn(i)), 0, a.shape[0])
        elif a.ndim == 2:
            el = ForAll(lambda i: ForAll(lambda j: equiv(a.fn(i, j), b.fn(i, j)), 0, a.shape[1], "j"), 0, a.shape[0])
        elif a.ndim == 3:
            el = ForAll(lambda i: ForAll(lambda j: ForAll(
                lambda k: equiv(a.fn(i, j, k), b.fn(i, j, k)), 0, a.shape[2], "k"), 0, a.shape[1], "j"), 0, a.shape[0])
        else:
            raise Undecided("equiv ndim>3")
        return And(shp, el)
    if isinstance(a, SSeries) and isinstance(b, SSeries):
        return And(equiv(a.index, b.index), equiv(a.values, b.values))
    if isinstance(a, SFrame) and isinstance(b, SFrame):
        return And(equiv(a.index, b.index), equiv(a.values, b.values))
    if isinstance(a, SObj) and isinstance(b, SObj) and (getattr(a, "structural", False) or getattr(b, "structural", False)):
        if a.cls is not b.cls:
            return False
        keys = set(a.attrs) | set(b.attrs)
        if set(a.attrs) != set(b.attrs):
            return False
        return And(*[equiv(a.attrs[k], b.attrs[k]) for k in sorted(keys)])
    if isinstance(a, (SObj, AbstractObj, Opaque)) or isinstance(b, (SObj, AbstractObj, Opaque)):
        return a is b
    if isinstance(a, (ExtClass,)) and isinstance(b, ExtClass):
        return a.path == b.path
    if isinstance(a, GenVal) and isinstance(b, GenVal):
        raise Undecided("equiv of generators")
    if type(a) is type(b) and a is b:
        return True
    if isinstance(a, bool) or isinstance(b, bool):
        return False
    return a is b


def prove_equiv(I, name, kind, got, want):
    f = equiv(got, want)
    I.ctx.prove(name, kind, f, info={"got": repr(got), "want": repr(want)})


# ------------------------------------------------------------------ modular use ----------

def exc_value(name):
    return ExcVal(ExtClass("builtins." + name if "." not in name else name), ())


_DOMAINS = None
STRICT_DOMAINS = True


def _call_domains():
    """baseline/call_domains.json (tools/mkdomains.py): parameters every verified case of a contract binds to constants"""
    global _DOMAINS
    if _DOMAINS is None:
        import json
        import os
        from . import VERIF
        try:
            _DOMAINS = json.load(open(os.path.join(VERIF, "baseline", "call_domains.json")))
        except (OSError, ValueError):
            _DOMAINS = {}
    return _DOMAINS


def _outside_domain(ctx, ctr, site, p_, v_, allowed):
    msg = (f"call {site} passes {p_}={v_!r}; the contract of {ctr.qualname} was verified for {p_} in "
           f"{{{', '.join(allowed)}}} only")
    if STRICT_DOMAINS:
        from .ctx import Undecided
        raise Undecided(msg)
    ctx.note("OUTSIDE VERIFIED DOMAIN (contract used as an assumption there): " + msg)


def apply_contract(I, ctr, fv, values):
    """Use the contract of a callee at a call site: check pre, branch on raise conditions,
    return the specified result."""
    ctx = I.ctx
    A = NS(values)
    callee = ctr.qualname
    if ctr.assumed:
        ctx.note(f"ASSUMED (not verified) contract used for {ctr.target}")
    site = f"{callee}@{'>'.join(ctx.frames[-2:])}"
    dom = _call_domains().get(ctr.target)
    if dom and not ctr.assumed:
        for p_, allowed in dom.items():
            if p_ not in values:
                continue
            v_ = values[p_]
            inside = (v_ is None or isinstance(v_, (bool, str, int))) and repr(v_) in allowed
            if not inside:
                _outside_domain(ctx, ctr, site, p_, v_, allowed)
    if ctr.pre is not None:
        ctx.prove(f"call-pre:{site}", "call-pre", ctr.pre(A))
    for (ename, cond) in ctr.raises:
        c = cond(A)
        if I.truth(c, f"raises:{callee}:{ename}") if not isinstance(c, bool) else c:
            raise SymRaise(exc_value(ename), where=f"contract of {callee}")
    if ctr.may_raise:
        for (ename, cond) in ctr.may_raise:
            c = cond(A)
            feasible = c if isinstance(c, bool) else True
            if feasible:
                nd = ctx.fresh_bool(f"mayraise_{callee}")
                if ctx.branch(And(nd, c), f"mayraise:{callee}:{ename}"):
                    raise SymRaise(exc_value(ename), where=f"contract of {callee}")
    if ctr.yields_item is not None:
        cnt = ctr.yields_count(A)
        return GenVal(cnt, lambda k: ctr.yields_item(A, k), None)
    if ctr.returns is not None:
        res = ctr.returns(A)
    elif ctr.result is not None:
        res = ctr.result(I, A)
    else:
        res = None
    for ens in ctr.ensures:
        if len(ens) > 2 and not ens[2].get("modular", True):
            continue      # proved for the callee, but not needed (and costly) at call sites
        ctx.assume(ens[1](A, res))
    if ctr.record_call:
        from .libmodels import Event
        ctx.trace.append(Event(None, "call:" + callee, [], dict(values), res, getattr(ctx, "loop_k", None)))
    return res


# ------------------------------------------------------------------ input builders -------

class Builder:
    """helpers to create symbolic inputs inside Contract.inputs(B, case)"""

    def __init__(self, I):
        self.I = I
        self.ctx = I.ctx

    def int(self, name, lo=None, hi=None):
        v = z3.Int(name)
        self.ctx.inputs[name] = v
        if lo is not None:
            self.ctx.assume(v >= lo)
        if hi is not None:
            self.ctx.assume(v <= hi)
        return v

    def real(self, name):
        v = z3.Real(name)
        self.ctx.inputs[name] = v
        return v

    def bool(self, name):
        v = z3.Bool(name)
        self.ctx.inputs[name] = v
        return v

    def assume(self, f):
        self.ctx.assume(f)

    def hint(self, name, f):
        """prove an auxiliary fact as its own obligation, then use it as a hypothesis"""
        self.ctx.prove(f"hint:{name}", "lemma", f, assume_after=True)

    def arr(self, name, n=None, dtype="int", kind="ndarray", ndim=1, shape=None):
        """uninterpreted array with symbolic (non-negative) shape"""
        if shape is None:
            shape = []
            for d in range(ndim):
                if d == 0 and n is not None:
                    shape.append(n)
                else:
                    s = z3.Int(f"{name}.shape{d}" if ndim > 1 else f"len({name})")
                    self.ctx.inputs[str(s)] = s
                    self.ctx.assume(s >= 0)
                    shape.append(s)
        sort = {"int": z3.IntSort(), "real": z3.RealSort(), "bool": z3.BoolSort()}[dtype]
        f = z3.Function(name, *([z3.IntSort()] * len(shape)), sort)
        self.ctx.inputs[name] = f
        a = SArr(tuple(shape), lambda *i: f(*[to_z3(x) for x in i]), dtype, kind, name=name)
        a.ufun = f
        return a

    def obj(self, clsname, module, attrs=None, tag=None):
        mod = self.I.src.module(module)
        ok, cls = self.I.mod_global(mod, clsname)
        assert ok, (clsname, module)
        return SObj(cls, attrs or {}, tag)

    def abstract(self, tag, isa=(), attrs=None):
        return AbstractObj(tag, isa, attrs)

    def opaque(self, tag, distinct=True):
        o = Opaque(tag)
        o.distinct = distinct
        return o


def register_alias(target, base_target):
    """a method defined in a base class, verified for a subclass: contract key names the subclass"""
    ALIASES[target] = base_target


ALIASES = {}


def PointwiseEq(a, b, name="p"):
    """a == b as 1-d sequences, stated at a FRESH index constant (proving it for an arbitrary index proves it for
    all); element functions are evaluated at a ground term, so quotient/remainder encodings may be used"""
    a, b = as_arr(a), as_arr(b)
    i = CUR.ctx.fresh_int(name)
    CUR.ctx.inputs[str(i)] = i
    inr = And(i >= 0, i < to_z3(a.shape[0]))
    CUR.ctx.assume(inr)                 # only constrains the fresh constant
    return And(Eq(a.shape[0], b.shape[0]), equiv(a.fn(i), b.fn(i)))
