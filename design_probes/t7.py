import sktime_compat as shim, warnings
warnings.filterwarnings("ignore")
import numpy as np, pandas as pd
from sktime.forecasting.base import ForecastingHorizon
shim._patch_fh()
for v in ([1.5,2], [1,1], "a", 1.0, np.array([1.0,2.0]), pd.Index([1.5,2.5]), [3,1,2], pd.RangeIndex(3)):
    try: print(repr(v)[:30], "->", ForecastingHorizon(v))
    except Exception as e: print(repr(v)[:30], "-> raises", type(e).__name__, str(e)[:60])
from sktime.transformations.series.impute import Imputer
df = pd.DataFrame({"a":[1.,np.nan,3.,4.],"b":[1.,2.,np.nan,5.]}); d0=df.copy()
for m in ["random","mean","drift","linear"]:
    df = d0.copy(); out = Imputer(method=m, random_state=0).fit_transform(df); print(m, "caller df mutated:", not df.equals(d0))
