import sktime_compat as shim, warnings
warnings.filterwarnings("ignore")
import numpy as np, pandas as pd
from sktime.forecasting.base import ForecastingHorizon
shim._patch_fh()
from sktime.forecasting.naive import NaiveForecaster
from sktime.forecasting.model_selection import ExpandingWindowSplitter, ForecastingGridSearchCV, SlidingWindowSplitter
from sktime.forecasting.model_evaluation import evaluate
from sktime.performance_metrics.forecasting import MeanAbsolutePercentageError, make_forecasting_scorer
y = pd.Series(np.arange(1.0, 21.0)**2)
cv = ExpandingWindowSplitter(fh=[1,2], initial_window=10, step_length=5)
calls=[]
def rec(y_true, y_pred):
    calls.append((y_true.copy(), y_pred.copy())); return float(np.mean(np.abs(y_true.values-y_pred.values)/np.abs(y_true.values)))
sc = make_forecasting_scorer(rec, name="rec")
try:
    res = evaluate(NaiveForecaster(), cv, y, scoring=sc)
    print(res)
    yt, yp = calls[0]
    print("first arg passed as y_true:", yt.values, " actual truth:", y.iloc[[10,11]].values)
except Exception as e:
    import traceback; traceback.print_exc()
print("--- tune with greater_is_better")
def negmae(y_true,y_pred): return -float(np.mean(np.abs(y_true.values-y_pred.values)))
sc2 = make_forecasting_scorer(negmae, name="negmae", greater_is_better=True)
try:
    g = ForecastingGridSearchCV(NaiveForecaster(), cv, {"strategy":["last","mean","drift"]}, scoring=sc2)
    g.fit(y)
    print(g.cv_results_[["mean_test_negmae","rank_test_negmae","params"]]); print(g.best_params_, g.best_score_)
except Exception as e:
    import traceback; traceback.print_exc()
