import sktime_compat as shim, warnings, traceback, tempfile, os
warnings.filterwarnings("ignore")
import numpy as np, pandas as pd
from sktime.forecasting.base import ForecastingHorizon
shim._patch_fh()
def tryit(name, f):
    try:
        r=f(); print("OK  ", name, str(r)[:300].replace("\n"," "))
    except Exception as e:
        print("FAIL", name, type(e).__name__, str(e)[:200].replace("\n"," "))
from sktime.performance_metrics.forecasting import median_absolute_percentage_error, MeanAsymmetricError, RelativeLoss, MeanAbsoluteScaledError, MeanSquaredScaledError, MeanRelativeAbsoluteError
from sktime.performance_metrics.forecasting import _functions as F
yt=np.array([1.,2.,4.]); yp=np.array([2.,2.,3.]); w=np.array([1.,1.,1.])
tryit("mdape weighted asym", lambda: (median_absolute_percentage_error(yt,yp,symmetric=False), median_absolute_percentage_error(yt,yp,horizon_weight=w,symmetric=False), "expected median of", np.abs(yt-yp)/np.abs(yt)))
tryit("MeanAsymmetricError()", lambda: MeanAsymmetricError()(yt,yp))
tryit("RelativeLoss()", lambda: RelativeLoss()(yt,yp))
tryit("MASE class", lambda: MeanAbsoluteScaledError()(yt,yp))
tryit("MSSE sp", lambda: MeanSquaredScaledError(sp=4).get_params())
tryit("MRAE class", lambda: MeanRelativeAbsoluteError()(yt,yp))
def hampel():
    from sktime.transformations.series.outlier_detection import HampelFilter
    z=pd.Series([1.,1.1,0.9,1.,50.,1.,1.1,0.9,1.,1.05,1.,1.]); z0=z.copy()
    out=HampelFilter(window_length=4).fit_transform(z)
    return "input mutated:", not z.equals(z0), z.values
tryit("hampel mutate", hampel)
def hampel_shift():
    from sktime.transformations.series.outlier_detection import HampelFilter
    z=pd.Series([1.,1.1,0.9,1.,50.,1.,1.1,0.9,1.,1.05,1.,1.]); z2=z.copy(); z2.index=z2.index+100
    a=HampelFilter(window_length=4).fit_transform(z.copy()); b=HampelFilter(window_length=4).fit_transform(z2)
    return a.values, b.values
tryit("hampel shift", hampel_shift)
def writer():
    from sktime.utils.data_io import write_dataframe_to_tsfile, load_from_tsfile_to_dataframe
    from sktime.utils._testing.panel import make_classification_problem
    X,y=make_classification_problem(n_instances=3,n_columns=1,n_timepoints=5,random_state=1)
    d=tempfile.mkdtemp()
    write_dataframe_to_tsfile(X, d, problem_name="p", equal_length=True, series_length=5)
    return load_from_tsfile_to_dataframe(os.path.join(d,"p","p_transform.ts"))
tryit("ts write/read no labels", writer)
def detr():
    from sktime.transformations.series.detrend import Detrender
    d=Detrender(); p0=d.get_params()["forecaster"]; d.fit(pd.Series(np.arange(10.))); return p0, d.get_params()["forecaster"]
tryit("detrender fit param", detr)
def detr2():
    from sktime.transformations.series.detrend import Detrender
    return Detrender().update(pd.Series(np.arange(10.)))
tryit("detrender update unfitted", detr2)
def iseg():
    from sktime.transformations.panel.segment import IntervalSegmenter
    X=np.arange(24.).reshape(2,1,12)
    t=IntervalSegmenter(intervals=3).fit(X); out=t.transform(X); return [len(out.iloc[0,j]) for j in range(out.shape[1])], t.intervals_
tryit("interval segmenter", iseg)
def imp():
    from sktime.transformations.series.impute import Imputer
    z=pd.Series([1.,2.,np.nan,4.,np.nan,np.nan,7.,8.]); return Imputer(method="drift").fit_transform(z).values
tryit("imputer drift", imp)
