from z3 import *
import time
def run(front):
    s=Solver(); s.set('timeout',30000)
    cnt=[0]
    def DM(x,m):
        cnt[0]+=1
        q,r=Ints(f'q{cnt[0]} r{cnt[0]}')
        s.add(x==m*q+r, r>=0, r<m); return q,r
    W,sp,T,h,i,j,p = Ints('W sp T h i j p')
    s.add(W>=1, sp>=2, W>=sp, h>=1, T>=W-1)
    _,rem = DM(W,sp)
    pad = If(rem>0, sp-rem, 0)
    # column index for step h after tiling: (h-1) mod sp
    _,jj = DM(h-1,sp)
    s.add(j==jj, i>=0, p==i*sp+j)
    if front:
        s.add(p>=pad, p<W+pad); t = T-W+1+(p-pad)
    else:
        s.add(p<W); t = T-W+1+p
    _,d = DM(T+h-t, sp)
    s.add(d!=0)
    t0=time.time(); r=s.check(); print('front' if front else 'end', r, time.time()-t0)
    if r==sat:
        m=s.model(); print({str(k):m[k] for k in [W,sp,T,h,i,j,p]})
run(False); run(True)
