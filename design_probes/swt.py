# Feasibility probe: VC for _sliding_window_transform loop invariant + postcondition
from z3 import *
import time
n,v,w,fhmax,E = Ints('n v w fhmax E')
z = Function('z', IntSort(), IntSort(), RealSort())      # z[t, c]
# Zt as array-of (r,c,k) -> Real : use Array with 3 indices via nested function + store through lambda
R=RealSort(); I=IntSort()
Zt0 = Function('Zt0', I,I,I,R)   # state at loop head
k = Int('k')
r,c,kk = Ints('r c kk')
pre = And(n>=1, v>=1, w>=1, fhmax>=0, E==w+fhmax, w+fhmax < n)
def inv(Zf, k):
    # forall k' < k, r in [E-k', n+E-k'): Zf[r,c,k'] = z[r-(E-k'), c] ; all other cells zero
    return ForAll([r,c,kk], Implies(And(0<=kk, kk<k, 0<=c, c<v, E-kk<=r, r<n+E-kk), Zf(r,c,kk)==z(r-(E-kk),c)))
# body: i=E-k; j=n+E-k; Zt[i:j,:,k]=z
Zt1 = Function('Zt1', I,I,I,R)
i_=E-k; j_=n+E-k
body = ForAll([r,c,kk], Zt1(r,c,kk) == If(And(kk==k, i_<=r, r<j_, 0<=c, c<v), z(r-i_, c), Zt0(r,c,kk)))
s=Solver(); s.set('timeout',30000)
s.add(pre, 0<=k, k<E+1, inv(Zt0,k), body, Not(inv(Zt1,k+1)))
t=time.time(); print('preservation', s.check(), time.time()-t)
# post: after loop k=E+1; Zt' = Zt[E:-E] -> rows r' in [0, n-E): Zt'[r',c,kk]=Zt[r'+E,c,kk]
# yt[r', i] = Zt'[r',0,w+fh[i]] ; claim == z[r'+w+fh[i], 0]; Xt[r',c,k<w] == z[r'+k, c]
fh = Function('fh', I, I); m=Int('m'); ii=Int('ii'); rp=Int('rp')
s=Solver(); s.set('timeout',30000)
s.add(pre, inv(Zt0,E+1), m>=1, ForAll([ii], Implies(And(0<=ii,ii<m), And(fh(ii)>=0, fh(ii)<=fhmax))), fh(m-1)==fhmax)
nrows = (n+E) - E - E   # len after slicing E:-E  (needs E>=1 true)
goal = And(nrows == n-E,
  ForAll([rp,ii], Implies(And(0<=rp, rp<n-E, 0<=ii, ii<m), Zt0(rp+E,0,w+fh(ii)) == z(rp+w+fh(ii),0))),
  ForAll([rp,c,kk], Implies(And(0<=rp, rp<n-E, 0<=c,c<v, 0<=kk, kk<w), Zt0(rp+E,c,kk)==z(rp+kk,c))))
s.add(Not(goal))
t=time.time(); print('post', s.check(), time.time()-t)
