import sktime_compat as shim, warnings
warnings.filterwarnings("ignore")
import numpy as np, pandas as pd
from sktime.forecasting.base import ForecastingHorizon
shim._patch_fh()
from sktime.forecasting.naive import NaiveForecaster
from sktime.forecasting.model_selection import CutoffSplitter, SingleWindowSplitter
y = pd.Series(np.arange(10.0)*1.0)
print("--- naive mean sp=2 W=3")
y2 = pd.Series([10., 0., 11., 1., 12., 2., 13.])
f = NaiveForecaster(strategy="mean", sp=2, window_length=3).fit(y2)
print(f.predict(fh=[1,2,3]))   # season of T+1 (index 7) = odd -> values 0,1,2 -> within window (last 3: 12,2,13): odd idx 5 -> 2. expect [2, 12.5, 2]
print("--- CutoffSplitter edge")
cv = CutoffSplitter(cutoffs=np.array([5]), fh=[5], window_length=3)
try:
    for tr,te in cv.split(y): print(tr,te, 'len y', len(y))
except Exception as e: print("raised", type(e), e)
print("--- SingleWindowSplitter oversize")
cv = SingleWindowSplitter(fh=[1], window_length=20)
for tr,te in cv.split(y): print(tr,te)
