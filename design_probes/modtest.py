from z3 import *
import time
i,d,sp=Ints('i d sp')
def pmod(x,m):  # python mod for m>0 equals z3 mod (euclidean) for m>0
    return x % m
s=Solver(); s.set("timeout",20000)
s.add(sp>=1, i>=0)
shift=pmod(-d,sp)
lhs=pmod(pmod(i,sp)-shift, sp)
rhs=pmod(i+d,sp)
s.add(lhs!=rhs)
t=time.time(); print(s.check(), time.time()-t)
# with explicit quotient encoding
s=Solver(); s.set("timeout",20000)
def M(x,m,name):
    q,r=Ints(f'q_{name} r_{name}')
    s.add(x==m*q+r, r>=0, r<m)
    return r
s.add(sp>=1,i>=0)
sh=M(-d,sp,'a'); im=M(i,sp,'b'); l=M(im-sh,sp,'c'); r=M(i+d,sp,'d')
s.add(l!=r)
t=time.time(); print(s.check(), time.time()-t)
