import sktime_compat as shim, warnings
warnings.filterwarnings("ignore")
import numpy as np, pandas as pd
from sktime.forecasting.base import ForecastingHorizon
shim._patch_fh()
from sktime.forecasting.naive import NaiveForecaster
from sktime.forecasting.compose import TransformedTargetForecaster
from sktime.transformations.series.boxcox import LogTransformer
from sktime.transformations.series.detrend import Deseasonalizer
y = pd.Series(np.exp(np.arange(1.0, 13.0)/4))
p = TransformedTargetForecaster([("log", LogTransformer()), ("f", NaiveForecaster())])
p.fit(y.iloc[:8])
print("after fit   : inner _y tail", p.steps_[-1][1]._y.tail(2).values, "log(y)=", np.log(y.iloc[6:8].values))
p.update(y.iloc[8:10], update_params=False)
print("after update: inner _y tail", p.steps_[-1][1]._y.tail(2).values, "log(y)=", np.log(y.iloc[8:10].values), "raw", y.iloc[8:10].values)
print(p.predict(fh=[1]))
print('--- deseasonalizer update')
z = pd.Series(np.tile([0., 10., 20., 30.], 5) + 100)
d = Deseasonalizer(sp=4).fit(z.iloc[:12])
a = d.transform(z.iloc[12:20])
d.update(z.iloc[13:15])
b = d.transform(z.iloc[12:20])
print(a.values); print(b.values)
