import sktime_compat as shim, warnings, traceback
warnings.filterwarnings("ignore")
import numpy as np, pandas as pd
from sktime.forecasting.base import ForecastingHorizon
shim._patch_fh()
def tryit(name, f):
    try:
        r=f(); print("OK  ", name, str(r)[:80].replace("\n"," "))
    except Exception as e:
        print("FAIL", name, type(e).__name__, str(e)[:150].replace("\n"," "))
y = pd.Series(np.arange(1.0, 41.0) + np.tile([0,3,1,5],10))
from sktime.utils._testing.panel import make_classification_problem
X, yc = make_classification_problem(n_instances=12, n_columns=1, n_timepoints=16, random_state=1)
def tsf():
    from sktime.classification.interval_based import TimeSeriesForestClassifier
    c=TimeSeriesForestClassifier(n_estimators=5, random_state=0).fit(X,yc); return c.predict_proba(X)[:2]
tryit("TSF", tsf)
def pad():
    from sktime.transformations.panel.padder import PaddingTransformer
    return PaddingTransformer(pad_length=20).fit_transform(X).iloc[0,0].shape
tryit("padder", pad)
def trunc():
    from sktime.transformations.panel.truncation import TruncationTransformer
    return TruncationTransformer(lower=2, upper=5).fit_transform(X).iloc[0,0].shape
tryit("trunc", trunc)
def paa():
    from sktime.transformations.panel.dictionary_based import PAA
    return PAA(num_intervals=3).fit_transform(X).iloc[0,0].values
tryit("paa", paa)
def ets():
    from sktime.forecasting.exp_smoothing import ExponentialSmoothing
    return ExponentialSmoothing().fit(y).predict(fh=[1,2])
tryit("expsmooth", ets)
def theta():
    from sktime.forecasting.theta import ThetaForecaster
    return ThetaForecaster(sp=4).fit(y).predict(fh=[1,2])
tryit("theta", theta)
def poly():
    from sktime.forecasting.trend import PolynomialTrendForecaster
    return PolynomialTrendForecaster(degree=2).fit(y).predict(fh=[-1,0,1,2])
tryit("poly", poly)
def red():
    from sktime.forecasting.compose import make_reduction
    from sklearn.linear_model import LinearRegression
    out=[]
    for s in ["direct","recursive","multioutput","dirrec"]:
        f=make_reduction(LinearRegression(), strategy=s, window_length=3); f.fit(y, fh=[1,3]); out.append(f.predict().values.round(2).tolist())
    return out
tryit("reduce", red)
def ens():
    from sktime.forecasting.compose import EnsembleForecaster, StackingForecaster, MultiplexForecaster
    from sktime.forecasting.naive import NaiveForecaster
    from sklearn.linear_model import LinearRegression
    e=EnsembleForecaster([("a",NaiveForecaster()),("b",NaiveForecaster("mean"))]).fit(y, fh=[1,2]).predict()
    s=StackingForecaster([("a",NaiveForecaster()),("b",NaiveForecaster("drift"))], LinearRegression()).fit(y, fh=[1,2]).predict()
    m=MultiplexForecaster([("a",NaiveForecaster()),("b",NaiveForecaster("drift"))], selected_forecaster="b").fit(y, fh=[1,2]).predict()
    return e.values, s.values, m.values
tryit("compose", ens)
def upd():
    from sktime.forecasting.naive import NaiveForecaster
    from sktime.forecasting.model_selection import SlidingWindowSplitter
    f=NaiveForecaster().fit(y.iloc[:30], fh=[1,2])
    return f.update_predict(y.iloc[30:], SlidingWindowSplitter(fh=[1,2], window_length=1, start_with_window=False)).shape
tryit("update_predict", upd)
def conv():
    from sktime.utils.data_processing import from_nested_to_3d_numpy, from_3d_numpy_to_nested, from_nested_to_multi_index, from_multi_index_to_nested, from_nested_to_long, from_long_to_nested
    a=from_nested_to_3d_numpy(X); b=from_3d_numpy_to_nested(a); c=from_nested_to_multi_index(b,"i","t"); d=from_multi_index_to_nested(c,"i"); e=from_nested_to_long(b); return a.shape, c.shape, d.shape, e.shape
tryit("conversions", conv)
def des():
    from sktime.transformations.series.detrend import Detrender, Deseasonalizer
    from sktime.transformations.series.boxcox import BoxCoxTransformer
    from sktime.transformations.series.impute import Imputer
    from sktime.transformations.series.outlier_detection import HampelFilter
    return Detrender().fit_transform(y).shape, BoxCoxTransformer().fit_transform(y).shape, Imputer().fit_transform(y).shape, HampelFilter(window_length=4).fit_transform(y.copy()).shape
tryit("series-transformers", des)
def bench():
    from sktime.benchmarking.orchestration import Orchestrator
    from sktime.benchmarking.results import RAMResults, HDDResults
    return "import ok"
tryit("bench", bench)
def io():
    from sktime.datasets import load_italy_power_demand, load_gunpoint
    Xi, yi = load_italy_power_demand(return_X_y=True); return Xi.shape
tryit("datasets", io)
def boss():
    from sktime.classification.dictionary_based import BOSSEnsemble
    c=BOSSEnsemble(max_ensemble_size=2, random_state=0).fit(X,yc); return c.predict_proba(X)[:2]
tryit("boss", boss)
