from z3 import *
import time, subprocess
def build():
    s=Solver()
    cnt=[0]
    def DM(x,m):
        cnt[0]+=1
        q,r=Ints(f'q{cnt[0]} r{cnt[0]}')
        s.add(x==m*q+r, r>=0, r<m); return q,r
    W,sp,T,h,i,j,p = Ints('W sp T h i j p')
    s.add(W>=1, sp>=2, W>=sp, h>=1, T>=W-1)
    _,rem = DM(W,sp)
    pad = If(rem>0, sp-rem, 0)
    _,jj = DM(h-1,sp)
    s.add(j==jj, i>=0, p==i*sp+j)
    s.add(p>=pad, p<W+pad); t = T-W+1+(p-pad)
    _,d = DM(T+h-t, sp)
    s.add(d!=0)
    return s
s=build()
open('naive_front.smt2','w').write('(set-logic QF_NIA)\n'+s.to_smt2())
for tac in ['qfnia','smt']:
    g=Goal(); g.add(s.assertions())
    t=Tactic(tac).solver(); t.set('timeout',20000); t.add(s.assertions())
    t0=time.time(); print(tac, t.check(), time.time()-t0)
for cmd in (['cvc5','--tlimit=30000','naive_front.smt2'], ['z3','-T:30','naive_front.smt2'], ['z3-new','-T:30','naive_front.smt2'], ['cvc5','--tlimit=30000','--nl-ext-tplanes','naive_front.smt2']):
    t0=time.time()
    try:
        out=subprocess.run(cmd,capture_output=True,text=True,timeout=40).stdout.strip().split('\n')[0]
    except Exception as e: out=str(e)
    print(cmd, out, time.time()-t0)
