#!/bin/bash
# Runs the registered quick check of each seed's property against a scratch worktree with the seed applied and records
# which obligations / bounded keys report it.  usage: detect_all.sh [seed ids...]   -> seeded/<id>/meta.json detected_by
cd /verif
ids=${@:-$(ls seeded)}
for id in $ids; do
  d=seeded/$id; prop=${id%%_*}
  [ -f $d/patch.diff ] || continue
  out=$(selftest/try_patch.sh $d/patch.diff $prop 2>&1); rc=$(echo "$out" | grep -o 'exit=[0-9]*' | tail -1 | cut -d= -f2)
  echo "$out" | grep -E "^(VIOLATION|UNDECIDED|VACUITY|REGRESSION|MISSING|CHECKER)" > $d/.detect.txt
  python3 - "$d" "$rc" <<'PY'
import json,sys,re,os
d,rc=sys.argv[1],sys.argv[2]
lines=open(os.path.join(d,'.detect.txt')).read().splitlines()
viol=[l for l in lines if l.startswith('VIOLATION')]
by=[]
for l in viol:
    m=re.search(r'replay=(\S+)',l)
    name=os.path.basename(m.group(1))[:-5] if m else l
    by.append({"replay":name,"kind":"bounded" if name.startswith("bounded_") else "obligation","native_replay":"no-failing-input-found" not in l})
meta=json.load(open(os.path.join(d,'meta.json')))
meta['detected_by']={"check_exit":int(rc) if rc.isdigit() else rc,"violations":by[:12],"n_violations":len(by),
                     "other_lines":[l[:200] for l in lines if not l.startswith('VIOLATION')][:4]}
json.dump(meta,open(os.path.join(d,'meta.json'),'w'),indent=1)
print(os.path.basename(d),"exit",rc,"violations",len(by),"obligation" if any(b['kind']=='obligation' for b in by) else "-","bounded" if any(b['kind']=='bounded' for b in by) else "-")
PY
  rm -f $d/.detect.txt
done
