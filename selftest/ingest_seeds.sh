#!/bin/bash
# Confirms seeds written by a sub-agent (dirs <root>/<PROP>_w<k>/{patch.diff,demo.py,notes.md}) in a scratch worktree
# usage: ingest_seeds.sh <root> [dir-suffix-pattern (_w)] [wave number (2)]
# (demo passes clean, fails patched, pinned suite unchanged) and copies the confirmed ones to /verif/seeded/<PROP>_w<k>/ with a meta.json.
root=$1; pat=${2:-_w}; wave=${3:-2}
wt=/tmp/wt_ingest_$$
git -C /repo worktree add -q --detach $wt HEAD || exit 1
head=$(git -C /repo log --format=%h -1)
for d in $root/*${pat}*/; do
  id=$(basename $d)
  [ -f $d/patch.diff ] || continue
  [ -d /verif/seeded/$id ] && continue
  cd $wt && git checkout -q -- . && git clean -fdq
  PYTHONPATH=/verif/compat:$wt timeout 900 /venv/bin/python $d/demo.py $wt >/dev/null 2>&1; clean=$?
  if ! git apply $d/patch.diff 2>/dev/null; then echo "$id PATCH-DOES-NOT-APPLY"; continue; fi
  PYTHONPATH=/verif/compat:$wt timeout 900 /venv/bin/python $d/demo.py $wt >/dev/null 2>&1; patched=$?
  tests=$(cd $wt && /venv/bin/python -m pytest -q -p no:cacheprovider --timeout=900 --continue-on-collection-errors 2>&1 | tail -1 | sed 's/ in [0-9.]*s.*//')
  files=$(git diff --name-only | tr '\n' ' ')
  git checkout -q -- . ; git clean -fdq
  echo "$id clean=$clean patched=$patched :: $tests :: $files"
  if [ "$clean" = "0" ] && [ "$patched" = "1" ] && [ "$tests" = "50 failed, 108 passed, 97 warnings, 292 errors" ]; then
    mkdir -p /verif/seeded/$id && cp $d/patch.diff $d/demo.py $d/notes.md /verif/seeded/$id/ 2>/dev/null
    python3 - "$id" "$files" "$head" "$tests" "$wave" <<'PY'
import json,sys
id_,files,head,tests,wave=sys.argv[1:6]
m={"property":id_.split('_')[0],"seed":id_,"files_changed":files.split(),"wave":int(wave),
   "source":"written by an independent sub-agent that saw only the property text and a scratch worktree",
   "confirmed_by_me":{"scratch_worktree":f"git worktree of /repo HEAD ({head}) under /tmp, removed afterwards","demo_on_clean_tree_exit":0,
                      "demo_with_patch_exit":1,"pinned_suite_with_patch":tests,"pinned_suite_clean":tests,"command":"/verif/selftest/ingest_seeds.sh"},
   "detected_by":None}
json.dump(m,open(f"/verif/seeded/{id_}/meta.json","w"),indent=1)
PY
  fi
done
cd / && git -C /repo worktree remove --force $wt
