#!/bin/bash
# Confirms each seeded change in a scratch worktree: demo passes on the clean tree, fails with the patch,
# and the pinned suite is unchanged with the patch.  usage: verify_seeds.sh <seed-root> <out.tsv> [ids...]
root=$1; out=$2; shift 2
wt=/tmp/wt_verify_$$
git -C /repo worktree add -q --detach $wt HEAD || exit 1
: > $out
for d in $root/*/m*; do
  id=$(basename $(dirname $d)); m=$(basename $d)
  if [ $# -gt 0 ] && [[ ! " $* " =~ " $id " ]]; then continue; fi
  [ -f $d/patch.diff ] || continue
  cd $wt && git checkout -q -- . 
  PYTHONPATH=/verif/compat:$wt timeout 600 /venv/bin/python $d/demo.py $wt >/dev/null 2>&1; clean=$?
  if ! git apply $d/patch.diff 2>/dev/null; then echo -e "$id\t$m\tPATCH-DOES-NOT-APPLY" >> $out; continue; fi
  PYTHONPATH=/verif/compat:$wt timeout 600 /venv/bin/python $d/demo.py $wt >/dev/null 2>&1; patched=$?
  tests=$(cd $wt && /venv/bin/python -m pytest -q -p no:cacheprovider --timeout=900 --continue-on-collection-errors 2>&1 | tail -1 | sed 's/ in [0-9.]*s.*//')
  git checkout -q -- .
  echo -e "$id\t$m\tclean=$clean\tpatched=$patched\t$tests" >> $out
done
cd / && git -C /repo worktree remove --force $wt
