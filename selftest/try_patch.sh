#!/bin/bash
# usage: try_patch.sh <patch.diff> <prop> [extra cli args]  -- applies the patch to /repo, runs the check, reverts
set -u
patch=$1; prop=$2; shift 2
cd /repo || exit 9
if ! git diff --quiet; then echo "/repo has uncommitted changes"; exit 9; fi
git apply "$patch" || { echo "patch does not apply"; exit 9; }
cd /verif && python3-vt -m pyvc.cli check "$prop" "$@"
rc=$?
git -C /repo checkout -- .
echo "exit=$rc"
