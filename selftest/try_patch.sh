#!/bin/bash
# usage: try_patch.sh <patch.diff> <prop> [extra cli args]
# Applies the patch to a scratch worktree of /repo (never to /repo itself), runs the check against it
# (PYVC_REPO), removes the worktree.  The registered checks themselves always read /repo.
set -u
patch=$(readlink -f "$1"); prop=$2; shift 2
wt=/tmp/wt_try_$$
git -C /repo worktree add -q --detach $wt HEAD || exit 9
cleanup() { git -C /repo worktree remove --force $wt 2>/dev/null; }
trap 'cleanup; exit 130' INT TERM
( cd $wt && git apply "$patch" ) || { echo "patch does not apply"; cleanup; exit 9; }
cd /verif && PYVC_REPO=$wt timeout -k 10 1500 python3-vt -m pyvc.cli check "$prop" "$@"
rc=$?
cleanup
echo "exit=$rc"
