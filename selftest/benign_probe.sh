#!/bin/bash
# For behaviour-preserving patches (dirs <root>/B*/patch.diff): run the registered quick check of every property that has a
# contract on a changed file, against a scratch worktree with the patch applied; a VIOLATION here would be a false alarm.
root=$1
cd /verif
for d in $root/B*/; do
  id=$(basename $d); [ -f $d/patch.diff ] || continue
  files=$(grep '^+++ b/' $d/patch.diff | sed 's#^+++ b/##')
  props=$(python3-vt - $files <<'PY'
import sys
sys.path.insert(0, '/verif')
from pyvc import engine, spec
reg = engine.load_contracts()
files = set(sys.argv[1:])
ps = set()
for t, c in reg.items():
    if c.path in files and not c.assumed:
        ps.update(c.prop.split(','))
print(' '.join(sorted(ps)))
PY
)
  for p in $props; do
    out=$(selftest/try_patch.sh $d/patch.diff $p 2>&1); rc=$(echo "$out" | grep -o 'exit=[0-9]*' | tail -1 | cut -d= -f2)
    nv=$(echo "$out" | grep -c '^VIOLATION'); nu=$(echo "$out" | grep -c '^UNDECIDED\|^MISSING\|^CHECKER')
    echo "$id $p exit=$rc violations=$nv undecided_or_missing=$nu :: $(echo "$out" | grep -E '^(VIOLATION|UNDECIDED|MISSING|CHECKER)' | head -2 | cut -c1-220 | tr '\n' '|')"
  done
done
