#!/bin/bash
# runs every registered quick (or $1=thorough) check in turn and prints one summary line each
tier=${1:-quick}; shift
props=${@:-$(python3 -c "import json;print(' '.join(c['property_id'] for c in json.load(open('/verif/MANIFEST.json'))['checks']))")}
cd /verif
for p in $props; do
  s=$(date +%s)
  out=$(python3-vt -m pyvc.cli check $p --tier $tier 2>&1); rc=$?
  echo "$p rc=$rc $(( $(date +%s)-s ))s :: $(echo "$out" | tail -1)"
  echo "$out" | grep -E "^(VIOLATION|UNDECIDED|VACUITY|CRASH|REGRESSION)" | head -8
done
python3-vt tools/mkdomains.py --check
