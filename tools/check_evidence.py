#!/usr/bin/env python3
"""Sanity check of the committed evidence files: schema-valid, written by a run against /repo at its current HEAD,
discharged == obligations, no violations."""
import glob, json, os, subprocess, sys
V = os.path.dirname(os.path.dirname(os.path.abspath(__file__)))
head = subprocess.check_output(["git", "-C", "/repo", "log", "--format=%H", "-1"]).decode().strip()
bad = 0
try:
    import jsonschema
    schema = json.load(open("/root/.vp/EVIDENCE.schema.json"))
except Exception:
    jsonschema = None
for p in sorted(glob.glob(os.path.join(V, "evidence", "C*.json"))):
    e = json.load(open(p))
    c = e["coverage"]
    probs = []
    if jsonschema:
        try:
            jsonschema.validate(e, schema)
        except Exception as ex:
            probs.append("schema: " + str(ex)[:100])
    if c["discharged"] != c["obligations"]:
        probs.append(f"discharged {c['discharged']} != obligations {c['obligations']}")
    if e.get("violations"):
        probs.append(f"violations: {e['violations']}")
    if e.get("repo", "/repo") != "/repo":
        probs.append("written by a run against " + str(e.get("repo")))
    if c.get("unknown") or c.get("undecided"):
        probs.append("unknown / undecided entries present")        # (refuted entries may be listed known findings: not counted)
    print(os.path.basename(p), "ok" if not probs else "PROBLEM: " + "; ".join(probs))
    bad += bool(probs)
sys.exit(1 if bad else 0)
