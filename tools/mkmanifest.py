#!/usr/bin/env python3
"""Regenerates /verif/MANIFEST.json from the table below (one place to keep claims honest)."""
import json
import os

VERIF = os.path.dirname(os.path.dirname(os.path.abspath(__file__)))
PROPS = [json.loads(l)["id"] for l in open(os.path.join(VERIF, "properties.jsonl"))]

CLAIMS = {
    "C01": dict(
        category="proof",
        text="Every splitter method (split/_split/_split_windows/get_cutoffs/get_n_splits of the sliding, expanding, cutoff and "
             "single-window splitters, _get_end, _check_window_lengths, _split_by_fh, temporal_train_test_split with fh) is "
             "symbolically executed from the real AST against a sidecar contract giving the exact k-th (train, test) pair for "
             "symbolic n, fh, window, step, initial window; the clauses of the property are level-2 lemmas over those contracts. "
             "All obligations are discharged by z3/cvc5 for all inputs, no bound.",
        note="trusted: pyvc interpreter + library models (np.arange, boolean-mask selection, np.sort, Index.nunique, Series.loc on a "
             "contiguous integer index); integers mathematical; start_with_window=False windows are truncated by design (stated as "
             "such); temporal_train_test_split without fh delegates to sklearn (assumed, bounded check only); the bounded native "
             "tier (real code, n<=11/16) is reported separately and never counted as proved",
        technique="contract-based deductive verification: AST->VC generation (pyvc) + z3/cvc5; generator yield schemas, loop invariants, level-2 lemmas",
        design="6/C01"),
    "C02": dict(
        category="proof",
        text="ForecastingHorizon.__init__/_check_values and every conversion method are verified against contracts stating the "
             "exact result values for every integer input shape (int, list, array, Int64Index, RangeIndex of either direction) and "
             "every cutoff; class invariant (sorted, duplicate-free) established by the real constructor and preserved; immutability "
             "(frame) proved, which justifies dropping lru_cache; round-trip and partition statements are lemmas over the contracts.",
        note="trusted: pyvc + pandas Index models (nunique, sort_values, boolean mask, arithmetic); rejection of fractional values is "
             "pandas' (pd.Int64Index(dtype=int)) -- modelled, checked by the bounded tier; Period/Datetime branches not verified",
        technique="contract-based deductive verification: AST->VC generation (pyvc) + z3/cvc5; class invariant + frame + lemmas",
        design="6/C02"),
}


def main():
    checks = []
    na = []
    for p in PROPS:
        c = CLAIMS.get(p)
        if not c:
            na.append({"property_id": p, "reason": NA.get(p, "check not built yet (see DESIGN.md section 6 for the plan)")})
            continue
        checks.append({
            "property_id": p,
            "quick_cmd": f"python3-vt -m pyvc.cli check {p} --tier quick",
            "thorough_cmd": f"python3-vt -m pyvc.cli check {p} --tier thorough",
            "evidence_file": f"/verif/evidence/{p}.json",
            "replay_cmd_template": "python3-vt -m pyvc.cli replay {path}",
            "engine": "pyvc",
            "level_claimed": {"category": c["category"], "text": c["text"], "design_ref": c["design"]},
            "level_note": c["note"],
            "technique": c["technique"],
        })
    m = {
        "version": 1,
        "setup_cmd": "python3-vt -m pyvc.cli selfcheck",
        "hooks": {"guard": "SKTIME_VERIF", "enable": "no hooks: contracts are sidecars in /verif/contracts, nothing in /repo is instrumented",
                  "baseline_off_cmd": "cd /repo && /venv/bin/python -m pytest -ra -q -p no:cacheprovider --timeout=900 --continue-on-collection-errors",
                  "source_commits": [], "add_only": True},
        "engines": [{"name": "pyvc", "path": "/verif/pyvc", "serves_properties": [c["property_id"] for c in checks],
                     "kind_free_text": "own deductive verifier: symbolic execution of the real Python AST against sidecar contracts, "
                                       "VCs discharged by z3 / cvc5; bounded native tier under /venv + compat shim for replay"}],
        "checks": checks,
        "not_applicable": na,
        "notes": "exit codes: 0 held, 1 violation (VIOLATION line), 2 undecided (solver unknown / code left the verified subset), 3 checker crash",
    }
    json.dump(m, open(os.path.join(VERIF, "MANIFEST.json"), "w"), indent=1)


NA = {}

if __name__ == "__main__":
    main()
