#!/usr/bin/env python3
"""Regenerates /verif/MANIFEST.json from the table below (one place to keep claims honest)."""
import json
import os

VERIF = os.path.dirname(os.path.dirname(os.path.abspath(__file__)))
PROPS = [json.loads(l)["id"] for l in open(os.path.join(VERIF, "properties.jsonl"))]

CLAIMS = {
    "C01": dict(
        category="proof",
        text="Every splitter method (split/_split/_split_windows/get_cutoffs/get_n_splits of the sliding, expanding, cutoff and "
             "single-window splitters, _get_end, _check_window_lengths, _split_by_fh, temporal_train_test_split with fh) is "
             "symbolically executed from the real AST against a sidecar contract giving the exact k-th (train, test) pair for "
             "symbolic n, fh, window, step, initial window; the clauses of the property are level-2 lemmas over those contracts. "
             "All obligations are discharged by z3/cvc5 for all inputs, no bound.",
        note="trusted: pyvc interpreter + library models (np.arange, boolean-mask selection, np.sort, Index.nunique, Series.loc on a "
             "contiguous integer index); integers mathematical; start_with_window=False windows are truncated by design (stated as "
             "such); temporal_train_test_split without fh delegates to sklearn (assumed, bounded check only); the bounded native "
             "tier (real code, n<=11/16) is reported separately and never counted as proved",
        technique="contract-based deductive verification: AST->VC generation (pyvc) + z3/cvc5; generator yield schemas, loop invariants, level-2 lemmas",
        design="6/C01"),
    "C02": dict(
        category="proof",
        text="ForecastingHorizon.__init__/_check_values and every conversion method are verified against contracts stating the "
             "exact result values for every integer input shape (int, list, array, Int64Index, RangeIndex of either direction) and "
             "every cutoff; class invariant (sorted, duplicate-free) established by the real constructor and preserved; immutability "
             "(frame) proved, which justifies dropping lru_cache; round-trip and partition statements are lemmas over the contracts.",
        note="trusted: pyvc + pandas Index models (nunique, sort_values, boolean mask, arithmetic); rejection of fractional values is "
             "pandas' (pd.Int64Index(dtype=int)) -- modelled, checked by the bounded tier; Period/Datetime branches not verified",
        technique="contract-based deductive verification: AST->VC generation (pyvc) + z3/cvc5; class invariant + frame + lemmas",
        design="6/C02"),
    "C03": dict(
        category="proof",
        text="The index/cutoff kernels every forecaster goes through are verified: _set_fh of both horizon mixins (which horizon is "
             "stored / kept / rejected, for every horizon form), _SktimeForecaster.predict (forecast for exactly the requested horizon, "
             "NotFittedError before fit), _BaseWindowForecaster._predict_fixed_cutoff (one value per step, labels = cutoff + step or the "
             "requested labels, increasing, for a cutoff anywhere in the remembered series), _BaseWindowForecaster._predict (steps <= 0 go "
             "to the in-sample path, steps > 0 to the fixed-cutoff path, results joined in horizon order), _update_y_X (cutoff = last label of the "
             "data passed to update), to_absolute / to_absolute_int (C02), PolynomialTrendForecaster fit/_predict labels; "
             "_predict_moving_cutoff (with the real _detached_cutoff context manager) leaves the cutoff where it was, on normal and on "
             "raising paths, with the cutoff after earlier loop iterations havoc'd.",
        note="'finite for finite data' is not decided (floating point / statistical fits); whole forecasters and their compositions, "
             "shift invariance end-to-end and statsmodels adapters are covered by the bounded native tier only (56k cases quick)",
        technique="contract-based deductive verification: AST->VC generation (pyvc) + z3; abstract _predict/_predict_last_window with ghost trace",
        design="6/C03"),
    "C04": dict(
        category="proof",
        text="Static sweep over all 158 estimator classes found in the package (including those that cannot be imported here): the real "
             "__init__ chain is executed with pairwise distinct arguments and must store each under its own name and leave _is_fitted "
             "False; every apply-type method every concrete class defines or inherits from repo code is executed on a freshly "
             "constructed object with well-formed arguments and must raise NotFittedError on every path; nested parameters: "
             "_HeterogenousMetaEstimator._set_params/_get_params (whole list, then by name, then plain/nested keys; unknown names "
             "rejected), the same _set_params on a ColumnEnsembleClassifier (pairs derived from stored triples through a property setter) "
             "and fit-leaves-parameters for the pipeline and NaiveForecaster.fit (32 cases); Detrender.update guard. Truth values of "
             "unknown constructor arguments are symbolic (`arg or default` explores both branches).",
        note="best-effort sweep: classes/methods whose code leaves the verified subset are listed in the evidence as not covered (they "
             "do not make the run undecided); sklearn BaseEstimator.get_params/set_params/clone are modelled from their documented "
             "algorithm (assumed); known constructor deviations are listed in known_findings.json; runnable estimators are "
             "additionally exercised by the bounded native tier",
        technique="contract-based deductive verification: AST->VC generation (pyvc) + z3; class table + MRO from the AST, path enumeration",
        design="6/C04"),
    "C06": dict(
        category="proof",
        text="Over the reals: the three kernels (_percentage_error, _relative_error with sign-preserving EPS clamp, _asymmetric_error for "
             "all four function options) equal their textbook formulas pointwise; laws as lemmas over the kernel contracts (symmetric "
             "percentage error in [0,2] and swap-invariant, zero for a perfect forecast, scale invariance of ratios when no EPS clamp "
             "is active); mean/median absolute scaled error: numerator = aggregate of (y_true, y_pred) with the horizon weights, "
             "denominator = same aggregate of y_train[sp:] vs y_train[:-sp], clamped; nine public functions (mean / median absolute and "
             "squared percentage error, median squared error, mean / median / geometric-mean relative absolute error, geometric-mean "
             "relative squared error): ONE column aggregate over exactly the cells g(kernel(y_true_i, y_pred_i)) with g = abs / square "
             "(zeros replaced by EPS for the geometric means), weights = horizon_weight when given and the weighted aggregate then, "
             "optional square root, uniform average over outputs; a zero divisor inside an array expression of a result is an obligation "
             "(numpy would return inf/nan) that only an infeasible path discharges; all 18 metric classes: __call__ forwards "
             "(y_true, y_pred) in that order and each constructor option under the function's own keyword.",
        note="machine arithmetic treated as mathematical (float64 rounding, overflow, NaN not decided); sklearn aggregates "
             "(mean_absolute_error, median_absolute_error, np.average / np.median / np.mean, _weighted_percentile, gmean, np.sqrt) are "
             "external: recorded with their arguments, not interpreted; _weighted_geometric_mean: formula verified with log / exp uninterpreted and np.sum recorded (weights summing to zero excluded), an opaque function of its arguments at call sites; the "
             "asymmetric / squared scaled errors and relative_loss are covered by the bounded native tier (190k cases quick) only",
        technique="contract-based deductive verification: AST->VC generation (pyvc) + z3 (nonlinear real arithmetic)",
        design="6/C06"),
    "C05": dict(
        category="proof",
        text="_sliding_window_transform is verified for all series lengths, window lengths, horizons (gapped or not), numbers of "
             "exogenous columns and both scitypes with a loop invariant over the lag planes (exact value of every cell of Xt / yt); "
             "fit and predict of the four strategies are verified modularly against it with the wrapped regressor as an abstract "
             "object (ghost trace of fit/predict calls, predict = uninterpreted function): rows/targets passed to fit, last-window "
             "layout at predict, feedback of earlier predictions (recursive: loop invariant, unbounded; direct/dirrec/multioutput: "
             "1..3 horizon steps with symbolic step values). Cutoff may lie anywhere inside the remembered series.",
        note="trusted: pyvc + numpy models (zeros, slicing/assignment, C-order reshape, column_stack, concatenate), Series.loc on a "
             "contiguous integer index, sklearn.clone as 'fresh unfitted object', numpy<1.20 semantics of y_pred[i] = array([v]); "
             "no-NaN window assumed; direct/dirrec/multioutput loops over estimators verified for 1..3 steps (bound on the number of "
             "steps only); bounded native tier with a recording stub regressor reported separately",
        technique="contract-based deductive verification: AST->VC generation (pyvc) + z3/cvc5; loop invariants over 3-d arrays, abstract callees with ghost trace",
        design="6/C05"),
    "C07": dict(
        category="proof",
        text="evaluate() is verified with the forecaster and the metric as abstract objects and the splitter entering through its "
             "C01 contract (sliding, expanding, single-window; symbolic parameters): the fold loop is cut by an invariant and the ghost "
             "events of a symbolic fold k must be exactly fit-or-update(y.iloc[train_k], X_train_k[, fh=test labels]), predict(fh_k, "
             "X_test_k), metric(y_true=y.iloc[test_k], y_pred=the forecast), one appended row with that score, len(train_k) and the "
             "cutoff; no label at or after the first test label reaches the forecaster before predict; one row per split.",
        note="trusted: pyvc + pandas models (iloc/loc on a contiguous integer index, DataFrame as row accumulator), abstract forecaster "
             "interface (fit/update move the cutoff to the end of their data); fit_time/pred_time opaque; bounded native tier (real "
             "forecasters, recording metric) reported separately",
        technique="contract-based deductive verification: AST->VC generation (pyvc) + z3/cvc5; loop invariant + per-iteration ghost-event schema",
        design="6/C07"),
    "C08": dict(
        category="proof",
        text="BaseGridSearch.fit is verified with the base forecaster and the metric abstract, evaluate() entering through its C07 "
             "contract and a symbolic candidate list: every candidate is evaluated exactly once on a fresh clone configured with exactly "
             "its parameters, on the same splitter / data / strategy / metric; row j of cv_results_ is the column mean of that evaluate "
             "table with that candidate's parameters; best_index_ minimises the mean score for losses and maximises it when "
             "greater_is_better; best_score_/best_params_ belong to that candidate; best_forecaster_ is a fresh clone with the best "
             "parameters, fitted on the whole series iff refit. predict/update/cutoff forward unchanged to the best forecaster and "
             "raise NotFittedError before fit or with refit=False; the metric wrapper returns the function value un-negated.",
        note="1..3 candidates (bound on the number of candidates only); ParameterGrid/ParameterSampler enumeration, Series.rank, argmin, "
             "DataFrame.mean/filter are library models (assumed); joblib results in submission order (assumed); equality with an "
             "independent evaluate run is bounded-tier only",
        technique="contract-based deductive verification: AST->VC generation (pyvc) + z3; modular use of the evaluate contract, ghost trace",
        design="6/C08"),
    "C09": dict(
        category="proof",
        text="fit/_predict/update of TransformedTargetForecaster, EnsembleForecaster, MultiplexForecaster and StackingForecaster.fit / "
             "_predict are verified with members, transformers and meta-regressor as abstract objects: which clone is fitted/updated with which "
             "data (provenance by object identity through the ghost trace), order of inverse transforms, aggregate over member "
             "forecasts in member order, held-out window of stacking (members' first fit sees y without its last max(fh) points).",
        note="compositions of 1..3 members / 0..3 transformers (bound on the NUMBER of components only; each component is universally "
             "quantified); trusted: sklearn.clone / get_params / joblib order-preserving Parallel (assumed external contracts), "
             "pandas concat / row-wise aggregates as opaque provenance; numeric equality with manual composition is bounded-tier only",
        technique="contract-based deductive verification: AST->VC generation (pyvc) + z3; abstract components with ghost trace and data provenance",
        design="6/C09"),
    "C10": dict(
        category="proof",
        text="_update_y_X (remembered data = union of the labels, later values win, cutoff = end of the batch, for batches that touch or "
             "overlap what is remembered and a cutoff anywhere inside it), the default update (refit on exactly that union iff "
             "update_params, otherwise no fitted state touched), both _update_predict_single variants (= update then predict with the same "
             "options), _predict_moving_cutoff (each splitter window goes to one single update-and-predict step; cutoff restored on normal "
             "and exceptional exit), update of pipeline / ensemble / multiplexer / Detrender / Deseasonalizer are verified.",
        note="'same forecasts as a fresh forecaster fitted on y1 followed by y2' follows from the proved refit-on-union for every "
             "forecaster whose fit is a function of its arguments (assumption); _format_moving_cutoff_predictions is an ASSUMED "
             "contract; Series.combine_first modelled for contiguous integer indexes without gap; numeric equivalence on call "
             "histories is bounded-tier only",
        technique="contract-based deductive verification: AST->VC generation (pyvc) + z3; abstract fit/predict with ghost trace",
        design="6/C10"),
    "C11": dict(
        category="proof",
        text="NaiveForecaster._predict_last_window is verified for all series, cutoffs inside the series (so also in-sample windows "
             "shorter than window_length_), window lengths, seasonal periods and horizons: last value / latest same-season value "
             "(or missing), mean of exactly the window, seasonal mean = aggregate over exactly the same-season observations of the "
             "available window (statement on the cells handed to nanmean), drift through the window's end points; NaiveForecaster.fit "
             "(32 strategy / window / period cases: raises ValueError exactly for an invalid sp or window_length, window_length < sp, "
             "drift with window_length 1, unknown strategy, window longer than the series; otherwise the fitted window is sp / "
             "window_length / the whole series). "
             "PolynomialTrendForecaster.fit/_predict: degree/intercept options and the zero-based time axis (label - first label) "
             "in-sample and out-of-sample, labels = requested time points. ExponentialSmoothing._fit_forecaster hands y and every option, "
             "unchanged and under its own keyword, to statsmodels and fits that model.",
        note="np.nanmean is an uninterpreted aggregator (no missing values assumed in the window); least-squares fit is sklearn's "
             "(assumed); statsmodels adapters (ExponentialSmoothing, AutoETS, Theta) are covered by the bounded tier only "
             "(comparison with direct statsmodels calls); nonlinear mod/ceil facts via quotient-remainder encoding + hint lemmas",
        technique="contract-based deductive verification: AST->VC generation (pyvc) + z3 (nonlinear integer arithmetic with hint lemmas)",
        design="6/C11"),
    "C13": dict(
        category="proof",
        text="Deseasonalizer._align_seasonal: the component at time t is seasonal_[(t - t0) mod sp] for every stretch start, length and "
             "period (np.roll/np.resize models, quotient-remainder encoding); transform/inverse_transform remove/restore exactly that "
             "component with the input's index (additive and multiplicative), never write the input or the estimator; update leaves the "
             "phase origin and the component unchanged; OptionalPassthrough applies the same switch in both directions (identity when "
             "passing through, whatever state the object has been through); Detrender.transform / inverse_transform subtract / add the "
             "trend forecast requested at exactly the series' own time points (absolute horizon = the series' index) and keep the index; "
             "TabularToSeriesAdaptor applies the wrapped transformer to the series as one column and keeps the index; Imputer.transform "
             "returns a new series on the input's index; LogTransformer / BoxCoxTransformer transform and inverse_transform apply log / exp / "
             "boxcox / inv_boxcox element-wise with the SAME fitted lambda and keep the index; round-trip lemmas over the contracts.",
        note="stretch index modelled as a contiguous integer range; the trend forecaster / wrapped transformer are abstract "
             "(deterministic); log / exp / boxcox / inv_boxcox are uninterpreted functions (that exp inverts log etc. is assumed mathematics, "
             "compared numerically by the bounded tier); the Box-Cox lambda search (scipy optimiser) and HampelFilter index handling are "
             "bounded-tier only",
        technique="contract-based deductive verification: AST->VC generation (pyvc) + z3/cvc5; modular arithmetic via quotient/remainder",
        design="6/C13"),
    "C20": dict(
        category="proof",
        text="Two-sided contracts (raises E iff malformed, else returns its argument) are proved for the validation helpers is_int, "
             "check_window_length, check_step_length, check_sp, check_cutoffs, check_fh, check_time_index, check_series, check_y, "
             "check_equal_time_index, evaluate's _check_strategy, ForecastingHorizon construction, and -- through the C01 contracts -- "
             "the rejection conditions of every splitter entry point (window/initial window/horizon that does not fit, clashing options), "
             "temporal_train_test_split(fh + sizes), MultiplexForecaster with an unknown selection, NaiveForecaster.fit (invalid sp / "
             "window_length / strategy, window that does not fit), ill-formed composites (_check_forecasters: None, empty, not a list, "
             "duplicate / reserved / dunder names, all dropped, non-forecaster member; pipeline _check_steps: names, wrong step types).",
        note="input space is split into type cases (int/bool/float/None/str/list; Series/DataFrame/ndarray/list/None with sorted, unsorted, "
             "empty, unsupported index) inside which values are symbolic; forecaster entry points (fit/predict/update of concrete "
             "forecasters) are covered by the bounded native tier only",
        technique="contract-based deductive verification: AST->VC generation (pyvc) + z3/cvc5; raises-iff clauses per type case",
        design="6/C20"),
    "C12": dict(
        category="proof",
        text="Frame part of the property, proved with alias tracking (ghost set of written objects; a shallow copy shares its buffer "
             "with the original): apply-type methods write neither the caller's data nor the estimator -- _predict_fixed_cutoff, "
             "NaiveForecaster._predict_last_window, PolynomialTrendForecaster._predict, _predict of pipeline / ensemble / multiplexer, "
             "Deseasonalizer and OptionalPassthrough transform / inverse_transform, TabularToSeriesAdaptor, HampelFilter.transform, "
             "Imputer.transform (9 rules x missing-value option), _slope on a window that is a view of the caller's array, forest "
             "predict_proba / predict, column ensemble, BOSS ensembles, "
             "BaseClassifier.predict / score, sliding-window and interval segmenters (data only: row transformers store per-instance "
             "clones on self). Their results are functions of the arguments and the fitted state only (no n_jobs, no call history in any "
             "postcondition), which gives repeatability and n_jobs-independence under the joblib ordering assumption; "
             "EnsembleForecaster.fit collects member fits in member order.",
        note="NOT decided by contracts (bounded tier only, 12k cases quick): thread schedules under a threaded backend, pickling round "
             "trip, random_state reproducibility, repeat-call equality on every runnable estimator, fit not writing the caller's data; "
             "assumed: joblib.Parallel returns results in submission order; _hampel_filter writes its argument in place; pandas "
             "fillna / replace / interpolate / apply return new objects; predict(fh) of an optional-horizon forecaster overwrites the "
             "stored horizon (known finding)",
        technique="contract-based deductive verification: frame obligations with alias tracking (pyvc) + z3",
        design="6/C12, 12.2"),
    "C14": dict(
        category="proof",
        text="The numeric kernels of the closed-form transformers are verified against their defining formula for all sizes: "
             "PaddingTransformer.fit / transform / _create_pad and TruncationTransformer.transform on panels of UNEQUAL-length series (every "
             "cell has its own symbolic length: own values then fill value up to the requested or longest length; first k / requested "
             "range of every cell; one row per instance in input order), SlidingWindowSegmenter.transform (window t = "
             "the w observations centred at t with edge values repeated; includes memory safety of the as_strided view; three loop "
             "invariants + event schemas for the table assembly), IntervalSegmenter.fit/transform (equal consecutive intervals covering "
             "the series; block k = fitted interval k of every instance), PAA._perform_paa_along_dim (exactly num_intervals means per "
             "series, frame f = mean of the step function over [f*l, (f+1)*l) for fractional l = length / num_intervals; exact reals), "
             "from_3d_numpy_to_2d_array (column-then-time order), "
             "SeriesToPrimitives/SeriesToSeriesRowTransformer.transform (row i = wrapped transformer applied to instance i, fresh clone), "
             "Tabularizer / ColumnConcatenator.transform on 3-d arrays (column-then-time order), RandomIntervalFeatureExtractor.transform (column "
             "per (feature, interval) = that feature of that window, incl. the np.apply_along_axis fallback), "
             "TabularToSeriesAdaptor.transform/inverse_transform (series as one column, index kept), Imputer.transform (for 9 rules x "
             "missing-value option: the operation chain is [replace the missing-value marker] -> the chosen rule -> forward fill -> "
             "backward fill, each applied to the result of the previous step, on a copy of the input).",
        note="NOT proved, bounded tier only (22k cases quick, real transformers vs plain-python formulas): interpolation, "
             "nested-DataFrame input of tabularisation / concatenation, slope, imputed values, cosine, "
             "autocorrelation -- their code is pandas nested-DataFrame plumbing or floating point; assumed contracts: "
             "_concat_nested_arrays, _get_column_names, from_2d_array_to_nested, from_nested_to_2d_array, check_X on a nested frame, "
             "_get_max_length / get_min_length (nested max / min over map objects); 1..3 fitted intervals; PAA: "
             "floating-point rounding (the 'last frame lost' branch) not decided",
        technique="contract-based deductive verification: AST->VC generation (pyvc) + z3; loop invariants over 2-d/3-d arrays, event schemas",
        design="6/C14"),
    "C15": dict(
        category="other",
        text="Proved part: the numpy reshape kernels (from_3d_numpy_to_2d_array: cell (i, c*T + t) = X[i, c, t]; "
             "from_multi_index_to_3d_numpy: instance-major rows become (instance, column, time), rejects frames without 2 levels; "
             "from_3d_numpy_to_nested: cell (i, j) = X[i, j, :] as Series or ndarray; _get_time_index of an array = range over its LAST axis) and the "
             "lemma that the 2-d layout loses nothing. Everything else in the property (nested / long / multi-index round trips through "
             "pandas pivots and object cells) is decided only by the bounded stand-in tier and is NOT counted as proved.",
        note="bounded tier: hand-built panels with 1..3 (thorough ..8) instances, 1..3 columns, 2..4 (..12) time points, 151k cases quick; "
             "pandas (pivot, groupby, object cells) is outside the verifier's reach -- no model attempted",
        technique="contract-based deductive verification of the numpy kernels (pyvc + z3); bounded native round-trip checks for the pandas conversions",
        design="6/C15"),
    "C16": dict(
        category="proof",
        text="Row form (output row i is a function of input row i and the fitted state only, rows in input order, one per instance) is "
             "proved for: both row transformers (fresh clone of the wrapped transformer applied to instance i alone), the time series "
             "forest classifier / regressor (tree t sees mean/std/slope of ITS intervals of each row; output = average over trees), the "
             "column ensemble (member t on its own columns; average), the BOSS ensemble vote shares, sliding-window and fixed-interval "
             "segmentation; a lemma derives permutation equivariance, sub-selection and single-instance consistency from the row form.",
        note="wrapped transformers / trees / member classifiers are abstract and assumed to be row-wise maps themselves (sklearn trees, "
             "individual BOSS); container independence (nested DataFrame vs 3-d array) rests on check_X / from_nested_to_3d_numpy and is "
             "bounded-tier only (16k cases quick over every runnable panel estimator); 1..3 trees / members",
        technique="contract-based deductive verification: AST->VC generation (pyvc) + z3; abstract components with ghost trace; level-2 lemma",
        design="6/C16"),
    "C17": dict(
        category="proof",
        text="Proved for all panels, label sets and class counts: _transform (interval features: columns 3j..3j+2 = mean, std, slope of "
             "interval j of each row), TimeSeriesForestClassifier.predict_proba / Regressor.predict (= average of the trees' outputs on those "
             "features, each tree on its own intervals), TimeSeriesForestClassifier.predict and BaseClassifier.predict (label of a column "
             "attaining the row maximum, decoded through classes_ / the label encoder, one per instance), BaseClassifier.score "
             "(accuracy_score(y, predict(X))), column ensemble predict_proba / predict (average of the members on their own columns; "
             "dropped / empty / remainder entries), BOSSEnsemble / ContractableBOSS / TemporalDictionaryEnsemble.predict_proba "
             "((weighted) vote shares counted through the ensemble's own class dictionary), IndividualBOSS.predict (label i = one "
             "nearest-neighbour query on bag i alone) and predict_proba (one-hot rows), RandomIntervalSpectralForest / "
             "SupervisedTimeSeriesForest predict_proba (average over trees, tree t on ITS interval / lag resp. intervals of the series, its "
             "periodogram and first differences) and predict (arg-max decoding), MUSE.predict / predict_proba (the fitted inner classifier's "
             "output on the words of X, returned as is); flow lemma: fit of the three ensembles ends by setting the normaliser the vote "
             "shares divide by; lemmas: averages and vote shares of "
             "distributions are distributions (entries in [0, 1], rows sum to 1 -- induction over the columns).",
        note="trees / members / label encoder abstract; np.mean, np.std, _slope along a row window are uninterpreted functions of the "
             "cells (assumed: _slope formula, _get_column, LabelEncoder.inverse_transform, accuracy_score); 1..3 trees / members; "
             "MUSE's words and inner classifier, the feature values of RISE / STSF (_transform assumed / abstract), the 1-NN search / SFA words and the ensembles' random "
             "tie-breaking in predict are bounded-tier only (5k cases quick)",
        technique="contract-based deductive verification: AST->VC generation (pyvc) + z3; argmax axiomatisation, abstract components, induction lemmas",
        design="6/C17"),
    "C18": dict(
        category="other",
        text="Proved part (static, over the real AST of both functions): every header tag write_dataframe_to_tsfile can emit is either "
             "understood by load_from_tsfile_to_dataframe or provably skipped by its dispatch chain, and every tag the parser requires is "
             "written on every writer path. Value / label / shape round trips through the text format are decided only by the bounded "
             "stand-in tier (string formatting and parsing are outside the verifier's reach) and are NOT counted as proved.",
        note="bounded tier: write->load on univariate equal-length panels, (1, 2, 4) instances x (1..7) time points, 14 magnitude "
             "families, class labels / regression targets, 41k cases quick",
        technique="contract-based: constant-string analysis of the writer/parser ASTs as a lemma (pyvc); bounded native round trips",
        design="6/C18"),
    "C19": dict(
        category="proof",
        text="Orchestrator.fit_predict is verified for an arbitrary (task, dataset, strategy, fold) cell against an ABSTRACT result store "
             "whose existence answers are arbitrary booleans (any earlier history, including an interrupted run): the strategy is fitted "
             "once on exactly the fold's training rows iff something requested is missing, exactly the missing train / test predictions "
             "and fitted strategy are produced and saved under (strategy name, dataset name, fold, part) with y_true taken from the same "
             "rows, completed records are left alone, results are saved once at the end; RAMResults._generate_key is the 4-tuple of its "
             "components, hence injective; BaseResults._append_key registers both names exactly once; HDDResults.save_predictions writes "
             "index / y_true / y_pred under the record's key unformatted (no float_format) and registers the names.",
        note="the store, strategy, task and data frame are abstract; _iter (tasks x strategies x folds, fresh clone per fold) is "
             "abstracted to 'an arbitrary cell'; HDDResults file layout, resume across processes and disk read-back are bounded-tier only",
        technique="contract-based deductive verification: AST->VC generation (pyvc) + z3; per-iteration ghost-event schema",
        design="6/C19"),
}


def main():
    checks = []
    na = []
    for p in PROPS:
        c = CLAIMS.get(p)
        if not c:
            na.append({"property_id": p, "reason": NA.get(p, "check not built yet (see DESIGN.md section 6 for the plan)")})
            continue
        checks.append({
            "property_id": p,
            "quick_cmd": f"python3-vt -m pyvc.cli check {p} --tier quick",
            "thorough_cmd": f"python3-vt -m pyvc.cli check {p} --tier thorough",
            "evidence_file": f"/verif/evidence/{p}.json",
            "replay_cmd_template": "python3-vt -m pyvc.cli replay {path}",
            "engine": "pyvc",
            "level_claimed": {"category": c["category"], "text": c["text"], "design_ref": c["design"]},
            "level_note": c["note"],
            "technique": c["technique"],
        })
    m = {
        "version": 1,
        "setup_cmd": "python3-vt -m pyvc.cli selfcheck",
        "hooks": {"guard": "SKTIME_VERIF", "enable": "no hooks: contracts are sidecars in /verif/contracts, nothing in /repo is instrumented",
                  "baseline_off_cmd": "cd /repo && /venv/bin/python -m pytest -ra -q -p no:cacheprovider --timeout=900 --continue-on-collection-errors",
                  "source_commits": [], "add_only": True},
        "engines": [{"name": "pyvc", "path": "/verif/pyvc", "serves_properties": [c["property_id"] for c in checks],
                     "kind_free_text": "own deductive verifier: symbolic execution of the real Python AST against sidecar contracts, "
                                       "VCs discharged by z3 / cvc5; bounded native tier under /venv + compat shim for replay"}],
        "checks": checks,
        "not_applicable": na,
        "notes": "exit codes: 0 held, 1 violation (VIOLATION line), 2 undecided (solver unknown / code left the verified subset), 3 checker crash",
    }
    json.dump(m, open(os.path.join(VERIF, "MANIFEST.json"), "w"), indent=1)


NA = {}

if __name__ == "__main__":
    main()
