#!/usr/bin/env python3
"""Rewrites section 12 of DESIGN.md: the hand-written head (tools/design_changes_head.md) followed by tables generated
from known_findings.json and seeded/*/meta.json, so that the document cannot drift from the files the checks read."""
import glob
import json
import os
import re

V = os.path.dirname(os.path.dirname(os.path.abspath(__file__)))
MARK = "\n## 12. Changes during the build"


def esc(s):
    return str(s).replace("|", "\\|").replace("\n", " ")


def main():
    d = open(os.path.join(V, "DESIGN.md")).read()
    if MARK in d:
        d = d[: d.index(MARK)]
    d = d.rstrip("\n") + "\n"
    head = open(os.path.join(V, "tools", "design_changes_head.md")).read()
    k = json.load(open(os.path.join(V, "known_findings.json")))
    out = [head.rstrip("\n"), ""]
    out += ["### 12.3 Genuine defects found on the unchanged tree", "",
            "Every entry below was first reproduced on the real code (native replay under the shim) -- with one exception, the missing "
            "fitted-state guard of ShapeDTW, a class that cannot be imported in this sandbox: established by the static sweep and by "
            "reading the code. Repaired ones are single "
            "`fix:` commits in /repo (pinned suite re-run: 108 passed, unchanged) and are listed in `known_findings.json` under "
            "`fixed` — a fixed entry suppresses nothing. The others are API-level (the repair would change documented behaviour or "
            "a public signature) and are listed under `known`: the check prints `KNOWN-FINDING:` for exactly that obligation / "
            "bounded key and still reports any other violation of the same property.", "",
            f"**Fixed ({len(k['fixed'])} entries, {len({e['commit'] for e in k['fixed']})} commits)**", "",
            "| property | commit | what failed |", "|---|---|---|"]
    for e in k["fixed"]:
        out.append(f"| {e['property']} | `{e['commit']}` | {esc(e['what'])} |")
    out += ["", f"**Known findings ({len(k['known'])})**", "", "| property | keyed by | what fails |", "|---|---|---|"]
    for e in k["known"]:
        key = e["obligation"]
        if len(key) > 90:
            key = key.split("::")[-1]
        out.append(f"| {e['property']} | `{esc(key)}` ({e['kind']}) | {esc(e['what'])} |")
    out += ["", "False alarms met during the build were never listed as findings; they were resolved by correcting the machinery: "
            "`hasattr(list, '__len__')` answered False by the interpreter (fixed: protocol table), modular use of a contract whose "
            "result builder needs ghost inputs at an unrelated call site (fixed: `applicable` guard), the C10 / C13 / C19 oracle "
            "over-reaches of §12.2, and assume-after on final obligations that made the vacuity canary pass (fixed).", ""]
    out += ["### 12.4 Seeded breaking changes and which check reports them", "",
            "Each seed was written by a fresh sub-agent that saw only the property text and a scratch worktree (nothing from /verif), "
            "confirmed by me in a scratch worktree (demo passes on the clean tree, fails with the patch, pinned suite unchanged) and is "
            "kept in `seeded/<id>/` (patch.diff, demo.py, notes.md, meta.json); none is committed to /repo. `selftest/detect_all.sh` "
            "runs the registered quick check of the seed's property against a scratch worktree with the patch applied "
            "(`PYVC_REPO`), never against /repo. *obligation* = a contract obligation that is proved on the unchanged tree fails "
            "(named in the VIOLATION line); *bounded* = the bounded native tier finds a failing input; *replayed* = the counterexample "
            "reproduced on the real code.", "",
            "| seed | files | check exit | reported by | first reporting obligation / key |", "|---|---|---|---|---|"]
    n_det = n_obl = n_all = 0
    for p in sorted(glob.glob(os.path.join(V, "seeded", "*", "meta.json"))):
        m = json.load(open(p))
        sid = os.path.basename(os.path.dirname(p))
        db = m.get("detected_by")
        n_all += 1
        files = ", ".join(os.path.basename(f) for f in m.get("files_changed", []))
        if not db:
            out.append(f"| {sid} | {files} | not run | | |")
            continue
        kinds = sorted({v["kind"] for v in db.get("violations", [])})
        rep = any(v.get("native_replay") for v in db.get("violations", []))
        if db.get("check_exit") == 1 and db.get("n_violations"):
            n_det += 1
            n_obl += "obligation" in kinds
        first = next((v["replay"] for v in db.get("violations", []) if v["kind"] == "obligation"), None) or \
            next((v["replay"] for v in db.get("violations", [])), "")
        first = re.sub(r"^sktime_", "", first)[:110]
        out.append(f"| {sid} | {files} | {db.get('check_exit')} | {' + '.join(kinds)}{' (replayed)' if rep else ''} | `{esc(first)}` |")
    out += ["", f"Detected: {n_det} of {n_all} seeds (by a named contract obligation: {n_obl}); a seed that is reported only by the "
            "bounded tier touches code that is outside the verified subset (see the level notes) and is counted as bounded, not proved.", ""]
    res = os.path.join(V, "selftest", "benign", "RESULTS.txt")
    if os.path.exists(res):
        lines = [l for l in open(res).read().splitlines() if l.strip()]
        n0 = sum(" exit=0 " in l for l in lines)
        n2 = sum(" exit=2 " in l for l in lines)
        n1 = sum(" exit=1 " in l for l in lines)
        out += ["### 12.5 Behaviour-preserving changes (false-alarm probe)", "",
                "A further sub-agent (same isolation) wrote 16 harmless refactorings (B17 was added by me after wave 3: the behaviour-preserving counterpart of seed C03_x1) of functions under contract (renamed locals, reordered "
                "independent statements, algebraically identical expressions, introduced / inlined temporaries, swapped if/else with the negated "
                "condition, loop <-> comprehension, hoisted invariants, comments); kept in `selftest/benign/B*/`. `selftest/benign_probe.sh` runs, "
                "for each, the quick check of every property with a contract on the changed file against a scratch worktree.",
                "",
                f"Result of the last run ({len(lines)} check runs): exit 0: {n0}, exit 2 (undecided, no alarm): {n2}, exit 1 / VIOLATION (would be a "
                f"false alarm): {n1}. The exit-2 cases are the two structural refactorings (an append loop turned into a comprehension and "
                "back): invariants are attached to loop ordinals, so the contract has to be updated with such a change -- the check says "
                "`MISSING obligation that was proved on the baseline tree` / `no invariant`, never `VIOLATION`. A renamed local that an "
                "invariant mentions gives exit 2 with `contract refers to a name the function does not have`.", ""]
    open(os.path.join(V, "DESIGN.md"), "w").write(d + "\n".join(out) + "\n")


if __name__ == "__main__":
    main()
