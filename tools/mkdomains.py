#!/opt/veriftools/pyvenv/bin/python
"""Writes baseline/call_domains.json: for every verified (not assumed) contract, the parameters that ALL of its verified input
cases bind to concrete constants (None / bool / str / int), with the set of those constants.  `spec.apply_contract` uses the
table at call sites: a contract is only evidence for calls inside the domain it was verified on -- a call that passes something
else for such a parameter (another constant, or a non-constant value) is outside it.
Run after adding / changing contract input builders:  python3-vt tools/mkdomains.py"""
import json
import os
import sys

V = os.path.dirname(os.path.dirname(os.path.abspath(__file__)))
sys.path.insert(0, V)
from pyvc import engine, spec            # noqa: E402
from pyvc.source import SourceTable      # noqa: E402
from pyvc.ctx import Ctx                 # noqa: E402
from pyvc.interp import Interp           # noqa: E402
from pyvc.spec import Builder            # noqa: E402


def main():
    engine.load_contracts()
    src = SourceTable()
    res = {}
    for target, ctr in sorted(spec.REGISTRY.items()):
        if "#" in target or ctr.assumed or not ctr.inputs:
            continue
        vals = {}
        ok = True
        for case in (ctr.cases or ["-"]):
            try:
                ctx = Ctx([])
                I = Interp(src, ctx, spec.REGISTRY, root=target)
                spec.CUR = I
                I.root_contract = ctr
                engine.resolve_target(I, target)
                args = ctr.inputs(Builder(I), case)
            except Exception:      # noqa: BLE001
                ok = False
                break
            for k, v in args.items():
                if v is None or isinstance(v, (bool, str, int)):
                    vals.setdefault(k, set()).add(repr(v))
                else:
                    vals.setdefault(k, set()).add("<sym>")
        if not ok:
            continue
        const = {k: sorted(v) for k, v in vals.items() if "<sym>" not in v and k != "self"}
        if const:
            res[target] = const
    path = os.path.join(V, "baseline", "call_domains.json")
    if "--check" in sys.argv:
        old = json.load(open(path)) if os.path.exists(path) else None
        if old != res:
            print("call_domains.json is STALE: run python3-vt tools/mkdomains.py")
            sys.exit(1)
        print(f"call_domains.json is up to date ({len(res)} contracts)")
        return
    json.dump(res, open(path, "w"), indent=0, sort_keys=True)
    print(f"{len(res)} contracts with constant-bound parameters")


if __name__ == "__main__":
    main()
